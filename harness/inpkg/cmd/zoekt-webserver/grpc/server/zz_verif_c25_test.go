package server

// C25: streaming delivers every file once and conserves statistics.
//
// Runtime monitor for the gRPC streaming path: samplingSender (sampling.go),
// gRPCChunkSender (server.go), chunk.SendAll (grpc/chunk/chunker.go), Stats.Add and
// the proto conversion (api.go / api_proto.go).
//
// A fake zoekt.Streamer replays a generated sequence of events ("what the shards
// produced") through the real Server.StreamSearch. What the client receives is
// recorded twice:
//
//	fake     a WebserverService_StreamSearchServer that serialises every message at
//	         Send time (exactly what grpc does) and keeps the bytes
//	bufconn  a real grpc server and client over an in-memory connection
//
// and judged against the produced sequence: the concatenation of the files of all
// messages must be the produced files (unique names) in the produced order; a
// message with more than one file must stay inside the 1 MiB chunk budget; for every
// numeric counter of zoekt.Stats (reflection; Duration and FlushReason exempt) the
// sum over the received messages must equal the sum over the produced events.
//
// Third workload ("flush"): a real directory searcher over generated shards behind
// the same server; the same query is streamed with FlushWallTime 0 / 1ns / 1h, which
// routes the results through search.newFlushCollectSender (search/aggregate.go) in
// its three states. The FlushWallTime=0 stream is the reference for "produced".

import (
	"context"
	"errors"
	"fmt"
	"io"
	"math/rand/v2"
	"net"
	"os"
	"path/filepath"
	"reflect"
	"sort"
	"strings"
	"testing"
	"time"

	"google.golang.org/grpc"
	"google.golang.org/grpc/credentials/insecure"
	"google.golang.org/grpc/test/bufconn"
	"google.golang.org/protobuf/proto"

	"github.com/sourcegraph/zoekt"
	webserverv1 "github.com/sourcegraph/zoekt/grpc/protos/zoekt/webserver/v1"
	kit "github.com/sourcegraph/zoekt/internal/verifkit"
	"github.com/sourcegraph/zoekt/internal/verifkit/ix"
	"github.com/sourcegraph/zoekt/query"
	"github.com/sourcegraph/zoekt/search"
)

// c25Budget is chunk.maxMessageSize (unexported in grpc/chunk).
const c25Budget = 1 << 20

// ---------------------------------------------------------------------------------
// reflection over zoekt.Stats

// c25Fields: every numeric field of zoekt.Stats except Duration (wall clock of one
// search, documented as such and not summed by Stats.Add) and FlushReason.
var c25Fields = func() []string {
	var fs []string
	t := reflect.TypeOf(zoekt.Stats{})
	for i := 0; i < t.NumField(); i++ {
		f := t.Field(i)
		if f.Name == "Duration" || f.Name == "FlushReason" {
			continue
		}
		switch f.Type.Kind() {
		case reflect.Int, reflect.Int64, reflect.Int32, reflect.Uint64, reflect.Uint32, reflect.Uint:
			fs = append(fs, f.Name)
		}
	}
	return fs
}()

// c25WallClock are the counters that measure time inside a real search; they are
// conserved by the sender chain (and judged there) but differ between two real
// searches, so the flush differential leaves them out.
var c25WallClock = map[string]bool{"Wait": true, "MatchTreeConstruction": true, "MatchTreeSearch": true}

func c25Get(s *zoekt.Stats, name string) int64 {
	v := reflect.ValueOf(s).Elem().FieldByName(name)
	if v.CanInt() {
		return v.Int()
	}
	return int64(v.Uint())
}

func c25Set(s *zoekt.Stats, name string, x int64) {
	v := reflect.ValueOf(s).Elem().FieldByName(name)
	if v.CanInt() {
		v.SetInt(x)
	} else {
		v.SetUint(uint64(x))
	}
}

type c25Sums map[string]int64

func (a c25Sums) add(s *zoekt.Stats) {
	for _, f := range c25Fields {
		a[f] += c25Get(s, f)
	}
}

func c25NonZero(s *zoekt.Stats) map[string]int64 {
	m := map[string]int64{}
	for _, f := range append([]string{"Duration"}, c25Fields...) {
		if v := c25Get(s, f); v != 0 {
			m[f] = v
		}
	}
	return m
}

// ---------------------------------------------------------------------------------
// produced sequences

var c25Big = func() []byte {
	b := make([]byte, 3<<20+4096)
	for i := range b {
		b[i] = byte('a' + i%23)
	}
	return b
}()

// c25File builds a file match whose proto.Size is exactly target (when target > 0).
func c25File(name string, target int, r *rand.Rand) zoekt.FileMatch {
	f := zoekt.FileMatch{FileName: name, Repository: "r" + name[:min(len(name), 3)], Language: "go", Score: 1}
	if target <= 0 {
		switch r.IntN(3) {
		case 0:
			f.LineMatches = []zoekt.LineMatch{{Line: c25Big[:r.IntN(200)], LineNumber: 1 + r.IntN(100), LineFragments: []zoekt.LineFragmentMatch{{LineOffset: 1, MatchLength: 2}}}}
		case 1:
			f.ChunkMatches = []zoekt.ChunkMatch{{Content: c25Big[:r.IntN(300)], ContentStart: zoekt.Location{LineNumber: 1, Column: 1}, Ranges: []zoekt.Range{{Start: zoekt.Location{ByteOffset: 1, LineNumber: 1, Column: 2}, End: zoekt.Location{ByteOffset: 3, LineNumber: 1, Column: 4}}}}}
		default:
			f.Content = c25Big[:r.IntN(400)]
		}
		return f
	}
	n := target - 64
	for i := 0; i < 8; i++ {
		if n < 0 {
			n = 0
		}
		f.Content = c25Big[:n]
		d := target - proto.Size(f.ToProto())
		if d == 0 {
			break
		}
		n += d
	}
	return f
}

type c25Seq struct {
	no     int
	mode   string // stats mode
	segs   []string
	events []*zoekt.SearchResult
}

func (s *c25Seq) clone() []*zoekt.SearchResult {
	out := make([]*zoekt.SearchResult, len(s.events))
	for i, e := range s.events {
		c := *e
		c.Files = append([]zoekt.FileMatch(nil), e.Files...)
		out[i] = &c
	}
	return out
}

func (s *c25Seq) names() []string {
	var l []string
	for _, e := range s.events {
		for i := range e.Files {
			l = append(l, e.Files[i].FileName)
		}
	}
	return l
}

func (s *c25Seq) sums() (c25Sums, int64) {
	a := c25Sums{}
	var dur int64
	for _, e := range s.events {
		a.add(&e.Stats)
		dur += int64(e.Stats.Duration)
	}
	return a, dur
}

// describe is the replayable witness: one line per event.
func (s *c25Seq) describe() any {
	var evs []any
	run := 0
	var runStats []any
	flushRun := func() {
		if run > 0 {
			evs = append(evs, map[string]any{"stats_only_events": run, "stats_of_each(nonzero)": runStats})
			run, runStats = 0, nil
		}
	}
	for _, e := range s.events {
		if len(e.Files) == 0 {
			run++
			if len(runStats) < 260 {
				runStats = append(runStats, c25NonZero(&e.Stats))
			}
			continue
		}
		flushRun()
		var sizes []int
		total := 0
		for i := range e.Files {
			sz := proto.Size(e.Files[i].ToProto())
			total += sz
			if len(sizes) < 12 {
				sizes = append(sizes, sz)
			}
		}
		evs = append(evs, map[string]any{"files": len(e.Files), "first_file": e.Files[0].FileName, "proto_sizes(first 12)": sizes, "proto_size_total": total, "stats(nonzero)": c25NonZero(&e.Stats)})
	}
	flushRun()
	return map[string]any{"sequence_no": s.no, "stats_mode": s.mode, "segments": s.segs, "events": evs}
}

// c25Stats fills the stats of one event according to the sequence's mode.
func c25Stats(r *rand.Rand, mode string, st *zoekt.Stats) {
	switch {
	case mode == "zero":
	case strings.HasPrefix(mode, "only:"):
		if r.IntN(3) > 0 {
			c25Set(st, mode[5:], int64(1+r.IntN(1000)))
		}
	default: // mixed
		if r.IntN(6) == 0 {
			return // a completely empty event
		}
		for _, f := range c25Fields {
			if r.IntN(3) == 0 {
				c25Set(st, f, int64(1+r.IntN(100000)))
			}
		}
		if r.IntN(4) == 0 {
			st.Duration = time.Duration(1 + r.IntN(1e6))
		}
	}
}

var c25RunLens = []int{0, 1, 2, 3, 50, 98, 99, 100, 101, 102, 150, 199, 200, 201, 250}
var c25BigSizes = []int{943718, c25Budget - 1, c25Budget, c25Budget + 1, 3 << 20}

func c25Gen(r *rand.Rand, no int, heavy bool) *c25Seq {
	s := &c25Seq{no: no}
	switch x := r.IntN(10); {
	case x < 5:
		s.mode = "mixed"
	case x < 9:
		s.mode = "only:" + c25Fields[r.IntN(len(c25Fields))]
	default:
		s.mode = "zero"
	}
	fileNo := 0
	name := func() string {
		fileNo++
		return fmt.Sprintf("q%05d/f%06d", no, fileNo)
	}
	progress := func() zoekt.Progress {
		return zoekt.Progress{Priority: float64(r.IntN(100)), MaxPendingPriority: float64(r.IntN(100))}
	}
	statsRun := func(n int) {
		s.segs = append(s.segs, fmt.Sprintf("stats*%d", n))
		for i := 0; i < n; i++ {
			e := &zoekt.SearchResult{Progress: progress()}
			c25Stats(r, s.mode, &e.Stats)
			s.events = append(s.events, e)
		}
	}
	fileEvent := func(kind string) {
		e := &zoekt.SearchResult{Progress: progress()}
		c25Stats(r, s.mode, &e.Stats)
		switch kind {
		case "small":
			n := 1 + r.IntN(8)
			if x := r.IntN(10); x == 0 {
				n = 1 + r.IntN(300)
			}
			for i := 0; i < n; i++ {
				e.Files = append(e.Files, c25File(name(), 0, r))
			}
			s.segs = append(s.segs, fmt.Sprintf("files*%d", n))
		case "many":
			n := 3000 + r.IntN(2001)
			if r.IntN(2) == 0 {
				n = 5000
			}
			for i := 0; i < n; i++ {
				e.Files = append(e.Files, c25File(name(), 0, r))
			}
			s.segs = append(s.segs, fmt.Sprintf("files*%d", n))
		case "big":
			sz := c25BigSizes[r.IntN(len(c25BigSizes))]
			e.Files = append(e.Files, c25File(name(), sz, r))
			s.segs = append(s.segs, fmt.Sprintf("bigfile(%d)", sz))
		case "mixedbig":
			n := 2 + r.IntN(5)
			at := r.IntN(n)
			var d []string
			for i := 0; i < n; i++ {
				if i == at || r.IntN(4) == 0 {
					sz := c25BigSizes[r.IntN(len(c25BigSizes))]
					if r.IntN(3) == 0 {
						sz = 100000 + r.IntN(900000)
					}
					e.Files = append(e.Files, c25File(name(), sz, r))
					d = append(d, fmt.Sprint(sz))
				} else {
					e.Files = append(e.Files, c25File(name(), 0, r))
					d = append(d, "s")
				}
			}
			s.segs = append(s.segs, "files["+strings.Join(d, " ")+"]")
		}
		s.events = append(s.events, e)
	}
	nseg := 1 + r.IntN(6)
	for i := 0; i < nseg; i++ {
		switch x := r.IntN(20); {
		case x < 8:
			statsRun(c25RunLens[r.IntN(len(c25RunLens))])
		case x < 15:
			fileEvent("small")
		case x < 17:
			if heavy {
				fileEvent("big")
			} else {
				fileEvent("small")
			}
		case x < 19:
			if heavy {
				fileEvent("mixedbig")
			} else {
				statsRun(r.IntN(251))
			}
		default:
			if heavy {
				fileEvent("many")
			} else {
				fileEvent("small")
			}
		}
	}
	return s
}

// ---------------------------------------------------------------------------------
// the two observation points

type c25Streamer struct {
	events []*zoekt.SearchResult
}

func (s *c25Streamer) StreamSearch(ctx context.Context, q query.Q, opts *zoekt.SearchOptions, sender zoekt.Sender) error {
	for _, e := range s.events {
		sender.Send(e)
	}
	return nil
}

func (s *c25Streamer) Search(ctx context.Context, q query.Q, opts *zoekt.SearchOptions) (*zoekt.SearchResult, error) {
	return &zoekt.SearchResult{}, nil
}

func (s *c25Streamer) List(ctx context.Context, q query.Q, opts *zoekt.ListOptions) (*zoekt.RepoList, error) {
	return &zoekt.RepoList{}, nil
}
func (s *c25Streamer) Close()         {}
func (s *c25Streamer) String() string { return "c25Streamer" }

// c25Switch lets one long-lived grpc server serve a different streamer per request.
type c25Switch struct{ cur zoekt.Streamer }

func (s *c25Switch) StreamSearch(ctx context.Context, q query.Q, opts *zoekt.SearchOptions, sender zoekt.Sender) error {
	return s.cur.StreamSearch(ctx, q, opts, sender)
}
func (s *c25Switch) Search(ctx context.Context, q query.Q, opts *zoekt.SearchOptions) (*zoekt.SearchResult, error) {
	return s.cur.Search(ctx, q, opts)
}
func (s *c25Switch) List(ctx context.Context, q query.Q, opts *zoekt.ListOptions) (*zoekt.RepoList, error) {
	return s.cur.List(ctx, q, opts)
}
func (s *c25Switch) Close()         {}
func (s *c25Switch) String() string { return "c25Switch" }

// c25Msg is one received message.
type c25Msg struct {
	m    *webserverv1.SearchResponse
	size int // wire size of the StreamSearchResponse
}

// c25FakeStream captures the wire form of every message at Send time.
type c25FakeStream struct {
	grpc.ServerStream
	ctx  context.Context
	msgs []c25Msg
}

func (f *c25FakeStream) Context() context.Context { return f.ctx }
func (f *c25FakeStream) Send(r *webserverv1.StreamSearchResponse) error {
	b, err := proto.Marshal(r)
	if err != nil {
		return err
	}
	var back webserverv1.StreamSearchResponse
	if err := proto.Unmarshal(b, &back); err != nil {
		return err
	}
	f.msgs = append(f.msgs, c25Msg{m: back.GetResponseChunk(), size: len(b)})
	return nil
}

func c25Request(q query.Q, opts *zoekt.SearchOptions) *webserverv1.StreamSearchRequest {
	return &webserverv1.StreamSearchRequest{Request: &webserverv1.SearchRequest{Query: query.QToProto(q), Opts: opts.ToProto()}}
}

func c25ViaFake(st zoekt.Streamer, req *webserverv1.StreamSearchRequest) ([]c25Msg, error) {
	fs := &c25FakeStream{ctx: context.Background()}
	err := NewServer(st).StreamSearch(req, fs)
	return fs.msgs, err
}

type c25Net struct {
	sw     *c25Switch
	gs     *grpc.Server
	cc     *grpc.ClientConn
	client webserverv1.WebserverServiceClient
}

func c25NewNet() (*c25Net, error) {
	n := &c25Net{sw: &c25Switch{}}
	lis := bufconn.Listen(1 << 20)
	n.gs = grpc.NewServer()
	webserverv1.RegisterWebserverServiceServer(n.gs, NewServer(n.sw))
	go func() { _ = n.gs.Serve(lis) }()
	cc, err := grpc.NewClient("passthrough:///c25",
		grpc.WithContextDialer(func(ctx context.Context, _ string) (net.Conn, error) { return lis.DialContext(ctx) }),
		grpc.WithTransportCredentials(insecure.NewCredentials()))
	if err != nil {
		return nil, err
	}
	n.cc = cc
	n.client = webserverv1.NewWebserverServiceClient(cc)
	return n, nil
}

func (n *c25Net) close() {
	n.cc.Close()
	n.gs.Stop()
}

func (n *c25Net) stream(st zoekt.Streamer, req *webserverv1.StreamSearchRequest) ([]c25Msg, error) {
	n.sw.cur = st
	ctx, cancel := context.WithTimeout(context.Background(), 5*time.Minute)
	defer cancel()
	cs, err := n.client.StreamSearch(ctx, req)
	if err != nil {
		return nil, err
	}
	var msgs []c25Msg
	for {
		r, err := cs.Recv()
		if errors.Is(err, io.EOF) {
			return msgs, nil
		}
		if err != nil {
			return msgs, err
		}
		msgs = append(msgs, c25Msg{m: r.GetResponseChunk(), size: proto.Size(r)})
	}
}

// ---------------------------------------------------------------------------------
// oracle

type c25Finding struct {
	class string // stable part of the signature
	what  string
}

type c25Obs struct {
	msgs, chunkedEvents, multiFileMsgs, singleOverBudget, emptyFileMsgsWithStats int
	maxMultiWire, maxMultiPayload                                              int
	statsMsgs                                                                  int
}

func c25Names(msgs []c25Msg) []string {
	var l []string
	for _, m := range msgs {
		for _, f := range m.m.GetFiles() {
			l = append(l, string(f.GetFileName()))
		}
	}
	return l
}

// c25Order classifies the difference between the produced and delivered names.
func c25Order(want, got []string) (class, detail string) {
	if len(want) == len(got) {
		same := true
		for i := range want {
			if want[i] != got[i] {
				same = false
				break
			}
		}
		if same {
			return "", ""
		}
	}
	cw, cg := map[string]int{}, map[string]int{}
	for _, n := range want {
		cw[n]++
	}
	for _, n := range got {
		cg[n]++
	}
	var missing, dup, extra []string
	for n, c := range cw {
		if cg[n] < c {
			missing = append(missing, n)
		}
		if cg[n] > c {
			dup = append(dup, n)
		}
	}
	for n := range cg {
		if cw[n] == 0 {
			extra = append(extra, n)
		}
	}
	sort.Strings(missing)
	sort.Strings(dup)
	sort.Strings(extra)
	short := func(l []string) string {
		if len(l) > 5 {
			return fmt.Sprintf("%v … (%d)", l[:5], len(l))
		}
		return fmt.Sprint(l)
	}
	switch {
	case len(missing) > 0:
		return "file missing", fmt.Sprintf("produced %d files, delivered %d; missing %s", len(want), len(got), short(missing))
	case len(dup) > 0:
		return "file delivered twice", fmt.Sprintf("produced %d files, delivered %d; more than once: %s", len(want), len(got), short(dup))
	case len(extra) > 0:
		return "file never produced", fmt.Sprintf("delivered files that were not produced: %s", short(extra))
	}
	for i := range want {
		if want[i] != got[i] {
			return "file order", fmt.Sprintf("position %d: produced %s, delivered %s", i, want[i], got[i])
		}
	}
	return "file order", "?"
}

// c25Judge compares what was received with what was produced.
func c25Judge(wantNames []string, wantSums c25Sums, fields []string, msgs []c25Msg, err error) ([]c25Finding, c25Obs) {
	var out []c25Finding
	var o c25Obs
	if err != nil {
		out = append(out, c25Finding{"stream error", fmt.Sprintf("StreamSearch failed: %v", err)})
	}
	if class, detail := c25Order(wantNames, c25Names(msgs)); class != "" {
		out = append(out, c25Finding{class, detail})
	}
	got := c25Sums{}
	o.msgs = len(msgs)
	for i, m := range msgs {
		files := m.m.GetFiles()
		payload := 0
		for _, f := range files {
			payload += proto.Size(f)
		}
		if m.m.GetStats() != nil {
			o.statsMsgs++
			st := zoekt.StatsFromProto(m.m.GetStats())
			got.add(&st)
			if len(files) == 0 && payload == 0 {
				o.emptyFileMsgsWithStats++
			}
		}
		switch {
		case len(files) >= 2:
			o.multiFileMsgs++
			o.maxMultiWire = max(o.maxMultiWire, m.size)
			o.maxMultiPayload = max(o.maxMultiPayload, payload)
			// the chunker's contract: the files of one message add up to less than
			// the budget; the envelope (stats, progress, per-file framing) is the ε.
			if payload >= c25Budget {
				out = append(out, c25Finding{"message over budget", fmt.Sprintf("message %d holds %d files whose sizes add up to %d >= %d", i, len(files), payload, c25Budget)})
			} else if m.size > c25Budget+8*len(files)+1024 {
				out = append(out, c25Finding{"message over budget", fmt.Sprintf("message %d holds %d files and is %d bytes on the wire (budget %d + framing)", i, len(files), m.size, c25Budget)})
			}
		case len(files) == 1 && m.size > c25Budget:
			o.singleOverBudget++
		}
	}
	var bad []string
	dir := ""
	for _, f := range fields {
		if got[f] != wantSums[f] {
			bad = append(bad, fmt.Sprintf("%s: produced %d delivered %d", f, wantSums[f], got[f]))
			d := "lost"
			if got[f] > wantSums[f] {
				d = "gained"
			}
			if dir == "" {
				dir = d
			} else if dir != d {
				dir = "lost+gained"
			}
		}
	}
	if len(bad) > 0 {
		out = append(out, c25Finding{"stats not conserved/" + dir, strings.Join(bad, "; ")})
	}
	return out, o
}

func c25Has(fs []c25Finding, class string) bool {
	for _, f := range fs {
		if f.class == class {
			return true
		}
	}
	return false
}

// c25Shrink removes events / files while the finding class persists (fake path).
func c25Shrink(s *c25Seq, class string) *c25Seq {
	cur := &c25Seq{no: s.no, mode: s.mode, segs: []string{"shrunk from", strings.Join(s.segs, " ")}, events: s.events}
	fails := func(evs []*zoekt.SearchResult) bool {
		t := &c25Seq{events: evs}
		sums, _ := t.sums()
		msgs, err := c25ViaFake(&c25Streamer{events: t.clone()}, c25Request(&query.Const{Value: true}, &zoekt.SearchOptions{}))
		fs, _ := c25Judge(t.names(), sums, c25Fields, msgs, err)
		return c25Has(fs, class)
	}
	budget := 400
	for chunk := len(cur.events) / 2; chunk >= 1 && budget > 0; {
		removed := false
		for i := 0; i+chunk <= len(cur.events) && budget > 0; {
			cand := append(append([]*zoekt.SearchResult(nil), cur.events[:i]...), cur.events[i+chunk:]...)
			budget--
			if fails(cand) {
				cur.events = cand
				removed = true
			} else {
				i += chunk
			}
		}
		if !removed || chunk > len(cur.events) {
			chunk /= 2
		}
	}
	// halve the file lists
	for i, e := range cur.events {
		for len(e.Files) > 1 && budget > 0 {
			c := *e
			c.Files = e.Files[:len(e.Files)/2]
			cand := append([]*zoekt.SearchResult(nil), cur.events...)
			cand[i] = &c
			budget--
			if !fails(cand) {
				break
			}
			cur.events = cand
			e = &c
		}
	}
	return cur
}

var c25Reported = map[string]bool{}

func c25Report(rec *kit.Rec, path string, s *c25Seq, fs []c25Finding) {
	for _, f := range fs {
		sig := f.class + "/" + path
		if c25Reported[sig] {
			rec.Violation(sig, f.what, nil) // counted only; the first witness is kept
			continue
		}
		c25Reported[sig] = true
		// the witness of the first occurrence is shrunk on the fake path (the
		// classes are the same on both paths)
		w := c25Shrink(s, f.class)
		if len(w.events) == len(s.events) {
			w = s
		}
		rec.Violation(sig, f.what, w.describe())
	}
}

func c25Features(s *c25Seq, o c25Obs) (string, bool) {
	pendingNZ := false // the sampler holds a non-zero aggregate
	var feats []string
	seen := map[string]bool{}
	add := func(f string) {
		if !seen[f] {
			seen[f] = true
			feats = append(feats, f)
		}
	}
	nz := func(st *zoekt.Stats) bool { return len(c25NonZero(st)) > 0 }
	count := 0
	for _, e := range s.events {
		if len(e.Files) == 0 {
			count++
			if nz(&e.Stats) {
				pendingNZ = true
			}
			if count%100 == 0 && pendingNZ {
				add("sampled@100")
				pendingNZ = false
			}
			continue
		}
		if pendingNZ {
			add("merged-into-files")
		}
		pendingNZ = false
		if len(e.Files) >= 1000 {
			add("many-files")
		}
	}
	if pendingNZ {
		add("final-flush")
	}
	if o.multiFileMsgs > 0 && o.msgs > len(s.events) {
		add("chunked")
	}
	if o.singleOverBudget > 0 {
		add("oversize-file")
	}
	if o.emptyFileMsgsWithStats > 0 && seen["oversize-file"] {
		add("stats-on-empty-chunk")
	}
	sort.Strings(feats)
	return strings.Join(feats, "+"), len(feats) > 0
}

// ---------------------------------------------------------------------------------
// flush differential over a real directory searcher

func c25FlushWorld(rec *kit.Rec, r *rand.Rand, no int) {
	g := kit.NewGen(r)
	c := g.Corpus()
	dir := filepath.Join(rec.Work, fmt.Sprintf("c25-%d", no))
	if err := os.MkdirAll(dir, 0o755); err != nil {
		rec.Violation("harness/mkdir", err.Error(), nil)
		return
	}
	defer os.RemoveAll(dir)
	if _, err := ix.BuildLayout(dir, c, ix.RandomLayout(g, c)); err != nil {
		rec.Violation("harness/build", err.Error(), nil)
		return
	}
	ds, err := search.NewDirectorySearcher(dir)
	if err != nil {
		rec.Violation("harness/open", err.Error(), nil)
		return
	}
	defer ds.Close()
	qs := []query.Q{&query.Const{Value: true}}
	for i := 0; i < 5; i++ {
		t := g.Text(1 + r.IntN(3))
		if t == "" {
			continue
		}
		if r.IntN(2) == 0 {
			qs = append(qs, &query.Substring{Pattern: t, Content: r.IntN(2) == 0, CaseSensitive: r.IntN(2) == 0})
		} else {
			qs = append(qs, &query.Substring{Pattern: t, FileName: true})
		}
	}
	var fields []string
	for _, f := range c25Fields {
		if !c25WallClock[f] {
			fields = append(fields, f)
		}
	}
	key := func(m []c25Msg) []string {
		var l []string
		for _, x := range m {
			for _, f := range x.m.GetFiles() {
				l = append(l, f.GetRepository()+"\x00"+string(f.GetFileName())+"\x00"+strings.Join(f.GetBranches(), ","))
			}
		}
		sort.Strings(l)
		return l
	}
	sums := func(m []c25Msg) c25Sums {
		a := c25Sums{}
		for _, x := range m {
			if x.m.GetStats() != nil {
				st := zoekt.StatsFromProto(x.m.GetStats())
				a.add(&st)
			}
		}
		return a
	}
	for _, q := range qs {
		whole := r.IntN(2) == 0
		chunkM := r.IntN(2) == 0
		run := func(flush time.Duration) ([]c25Msg, error) {
			return c25ViaFake(ds, c25Request(q, &zoekt.SearchOptions{FlushWallTime: flush, Whole: whole, ChunkMatches: chunkM}))
		}
		ref, err := run(0)
		if err != nil {
			rec.Violation("flush/reference stream error", err.Error(), map[string]any{"query": q.String(), "corpus": ix.Dump(c)})
			continue
		}
		refKeys, refSums := key(ref), sums(ref)
		for _, fw := range []time.Duration{time.Nanosecond, time.Hour} {
			label := map[time.Duration]string{time.Nanosecond: "1ns", time.Hour: "1h"}[fw]
			got, err := run(fw)
			var fs []c25Finding
			if err != nil {
				fs = append(fs, c25Finding{"stream error", err.Error()})
			}
			if class, detail := c25Order(refKeys, key(got)); class != "" && class != "file order" {
				fs = append(fs, c25Finding{class, detail})
			}
			gs := sums(got)
			var bad []string
			for _, f := range fields {
				if gs[f] != refSums[f] {
					bad = append(bad, fmt.Sprintf("%s: unbuffered %d, FlushWallTime=%s %d", f, refSums[f], label, gs[f]))
				}
			}
			if len(bad) > 0 {
				fs = append(fs, c25Finding{"stats not conserved", strings.Join(bad, "; ")})
			}
			reasons := map[string]bool{}
			for _, x := range got {
				if x.m.GetStats() != nil {
					reasons[x.m.GetStats().GetFlushReason().String()] = true
				}
			}
			for k := range reasons {
				rec.Seen("flush_reasons_"+label, k)
			}
			for _, f := range fs {
				rec.Violation("flush/"+f.class+"/FlushWallTime="+label, f.what, map[string]any{"query": q.String(), "whole": whole, "chunk_matches": chunkM, "corpus": ix.Dump(c)})
			}
			rec.Count("flush_streams", 1)
			rec.Case(fmt.Sprintf("flush|%s|%d|%d|%s", label, len(refKeys), len(ref), q.String()), len(refKeys) > 0, func() any {
				return map[string]any{"kind": "flush", "FlushWallTime": label, "query": q.String(), "files": len(refKeys), "messages_unbuffered": len(ref), "messages": len(got)}
			})
		}
	}
}

// ---------------------------------------------------------------------------------

func TestVerif_C25(t *testing.T) {
	rec := kit.Open("C25")
	defer rec.Done()
	rec.Note("judged_stats_fields", c25Fields)
	nLight := rec.N(1600, 56000)
	nHeavy := rec.N(400, 8000)
	netEvery := rec.N(4, 8) // every k-th sequence also goes through the real grpc connection
	nFlush := rec.N(25, 500)

	nw, err := c25NewNet()
	if err != nil {
		rec.Violation("harness/bufconn", err.Error(), nil)
		return
	}
	defer nw.close()

	r := rec.Rand(1)
	req := c25Request(&query.Const{Value: true}, &zoekt.SearchOptions{})
	total := nLight + nHeavy
	for i := 0; i < total; i++ {
		heavy := i%(total/nHeavy) == 0
		s := c25Gen(r, i, heavy)
		names := s.names()
		sums, dur := s.sums()

		msgs, err := c25ViaFake(&c25Streamer{events: s.clone()}, req)
		fs, o := c25Judge(names, sums, c25Fields, msgs, err)
		c25Report(rec, "fake", s, fs)

		if i%netEvery == 0 || heavy {
			nm, err := nw.stream(&c25Streamer{events: s.clone()}, req)
			nfs, _ := c25Judge(names, sums, c25Fields, nm, err)
			c25Report(rec, "bufconn", s, nfs)
			rec.Count("sequences_bufconn", 1)
			rec.Count("messages_bufconn", int64(len(nm)))
		}

		feat, nontrivial := c25Features(s, o)
		rec.Case(fmt.Sprintf("%s|%s|%s", feat, s.mode, strings.Join(s.segs, " ")), nontrivial, func() any {
			return map[string]any{"kind": "sequence", "features": feat, "stats_mode": s.mode, "segments": s.segs, "events": len(s.events), "files": len(names), "messages": o.msgs}
		})
		rec.Count("sequences", 1)
		rec.Count("events_produced", int64(len(s.events)))
		rec.Count("files_produced", int64(len(names)))
		rec.Count("messages_fake", int64(o.msgs))
		rec.Count("messages_with_stats", int64(o.statsMsgs))
		rec.Count("multi_file_messages", int64(o.multiFileMsgs))
		rec.Count("single_file_messages_over_budget", int64(o.singleOverBudget))
		rec.Count("stats_only_messages", int64(o.emptyFileMsgsWithStats))
		rec.Max("max_multi_file_message_wire_bytes", int64(o.maxMultiWire))
		rec.Max("max_multi_file_message_payload_bytes", int64(o.maxMultiPayload))
		for _, f := range strings.Split(feat, "+") {
			if f != "" {
				rec.Count("feature_"+f, 1)
			}
		}
		rec.Seen("stats_modes", s.mode)
		if dur != 0 {
			var gotDur int64
			for _, m := range msgs {
				gotDur += int64(m.m.GetStats().GetDuration().AsDuration())
			}
			if gotDur != dur {
				rec.Count("exempt_duration_not_conserved", 1) // Stats.Add does not sum Duration: not judged
			}
		}
	}

	rf := rec.Rand(2)
	for i := 0; i < nFlush; i++ {
		c25FlushWorld(rec, rf, i)
	}
}
