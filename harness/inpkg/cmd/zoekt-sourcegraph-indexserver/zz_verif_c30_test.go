package main

// C30: the indexing queue behaves as a priority queue.
//
// Four monitors share one executable reference model (zz_verif_c30Apply, written from the
// property statement, not from queue.go):
//   (a) sequential random histories, every answer compared with the model;
//   (b) concurrent histories recorded at the client boundary, checked for
//       linearizability against the same model with porcupine;
//   (c) a white-box walk of Queue.items / Queue.pq under q.mu at quiescent points
//       (heapIdx == heap position or < 0, every heap entry tracked under its own id,
//       heap order, tracked / queued sets equal to the model's);
//   (d) the Go race detector (race:true) over (b) and over an unrecorded stress phase
//       that has no harness-induced synchronisation between the clients.
//
// Time: back-off is configured as 0 / disabled (never blocks) or 1 h (blocks until a
// successful SetIndexed for the whole run), so no verdict depends on the clock.

import (
	"fmt"
	"reflect"
	"runtime"
	"sort"
	"strconv"
	"strings"
	"sync"
	"sync/atomic"
	"testing"
	"time"

	"github.com/anishathalye/porcupine"
	sglog "github.com/sourcegraph/log"

	"github.com/sourcegraph/zoekt"
	kit "github.com/sourcegraph/zoekt/internal/verifkit"
)

// ---------------------------------------------------------------------------
// Operations as seen at the client boundary

const zz_verif_c30MaxIDs = 6

type zz_verif_c30Kind int

const (
	zz_verif_c30Add zz_verif_c30Kind = iota
	zz_verif_c30Pop
	zz_verif_c30Bump
	zz_verif_c30SetOK
	zz_verif_c30SetFail
	zz_verif_c30MRM
	zz_verif_c30Len
	zz_verif_c30Iter
	zz_verif_c30NKinds
)

var zz_verif_c30KindName = [...]string{"AddOrUpdate", "Pop", "Bump", "SetIndexed(ok)", "SetIndexed(fail)", "MaybeRemoveMissing", "Len", "Iterate"}
var zz_verif_c30KindLetter = [...]string{"A", "P", "B", "S", "F", "M", "L", "I"}

// zz_verif_c30In is one call. ID/IDs are model ids (0-based); the real RepoID is id+1.
type zz_verif_c30In struct {
	Kind  zz_verif_c30Kind `json:"-"`
	Op    string           `json:"op"`
	ID    int              `json:"id"`
	Ver   int              `json:"ver"`
	State indexState       `json:"state,omitempty"`
	IDs   []int            `json:"ids,omitempty"`
}

// zz_verif_c30Out is the normalised answer of one call.
type zz_verif_c30Out struct {
	OK    bool     `json:"ok,omitempty"`    // Pop
	Ghost bool     `json:"ghost,omitempty"` // Pop yielded the zero IndexOptions
	ID    int      `json:"id,omitempty"`    // Pop
	Ver   int      `json:"ver,omitempty"`   // Pop
	N     int      `json:"n,omitempty"`     // Len
	IDs   []int    `json:"ids,omitempty"`   // Bump (set, sorted) / MaybeRemoveMissing (sorted list)
	Iter  []string `json:"iter,omitempty"`  // Iterate: sorted "id:ver" / "ghost"
	Bad   string   `json:"bad,omitempty"`   // options that are not any options handed to the queue
}

func zz_verif_c30Opts(id, ver int) IndexOptions {
	return IndexOptions{
		RepoID:   uint32(id + 1),
		Name:     fmt.Sprintf("github.com/verif/repo-%d", id+1),
		CloneURL: fmt.Sprintf("http://gitserver/repo-%d", id+1),
		Symbols:  ver%2 == 0,
		Branches: []zoekt.RepositoryBranch{{Name: "HEAD", Version: "v" + strconv.Itoa(ver)}, {Name: "dev", Version: "d" + strconv.Itoa(ver)}},
		Priority: float64(ver),
	}
}

func zz_verif_c30Decode(o IndexOptions) (id, ver int, ghost bool, bad string) {
	if reflect.DeepEqual(o, IndexOptions{}) {
		return 0, 0, true, ""
	}
	id = int(o.RepoID) - 1
	if len(o.Branches) > 0 && strings.HasPrefix(o.Branches[0].Version, "v") {
		ver, _ = strconv.Atoi(o.Branches[0].Version[1:])
	}
	if !reflect.DeepEqual(o, zz_verif_c30Opts(id, ver)) {
		return id, ver, false, fmt.Sprintf("options %+v are not options that were handed to the queue", o)
	}
	return id, ver, false, ""
}

func zz_verif_c30Real(ids []int) []uint32 {
	out := make([]uint32, 0, len(ids))
	for _, id := range ids {
		out = append(out, uint32(id+1))
	}
	return out
}

// zz_verif_c30Exec performs one call on the real queue.
func zz_verif_c30Exec(q *Queue, in zz_verif_c30In) zz_verif_c30Out {
	var out zz_verif_c30Out
	switch in.Kind {
	case zz_verif_c30Add:
		q.AddOrUpdate(zz_verif_c30Opts(in.ID, in.Ver))
	case zz_verif_c30Pop:
		item, ok := q.Pop()
		out.OK = ok
		if ok {
			out.ID, out.Ver, out.Ghost, out.Bad = zz_verif_c30Decode(item.Opts)
		}
	case zz_verif_c30Bump:
		set := map[int]bool{}
		for _, x := range q.Bump(zz_verif_c30Real(in.IDs)) {
			set[int(x)-1] = true
		}
		for x := range set {
			out.IDs = append(out.IDs, x)
		}
		sort.Ints(out.IDs)
	case zz_verif_c30SetOK:
		q.SetIndexed(zz_verif_c30Opts(in.ID, in.Ver), in.State)
	case zz_verif_c30SetFail:
		q.SetIndexed(zz_verif_c30Opts(in.ID, in.Ver), indexStateFail)
		// make "back-off 0" independent of the clock's granularity: the next call
		// must read a strictly later time than the one Fail() stored.
		t0 := time.Now()
		for !time.Now().After(t0) {
		}
	case zz_verif_c30MRM:
		for _, x := range q.MaybeRemoveMissing(zz_verif_c30Real(in.IDs)) {
			out.IDs = append(out.IDs, int(x)-1)
		}
		sort.Ints(out.IDs)
	case zz_verif_c30Len:
		out.N = q.Len()
	case zz_verif_c30Iter:
		q.Iterate(func(o *IndexOptions) {
			id, ver, ghost, bad := zz_verif_c30Decode(*o)
			switch {
			case ghost:
				out.Iter = append(out.Iter, "ghost")
			case bad != "":
				out.Iter = append(out.Iter, "bad")
				out.Bad = bad
			default:
				out.Iter = append(out.Iter, fmt.Sprintf("%d:%d", id, ver))
			}
		})
		sort.Strings(out.Iter)
	}
	return out
}

// ---------------------------------------------------------------------------
// Reference model (from the property statement + DESIGN §4 C30)

type zz_verif_c30Item struct {
	Tracked bool
	HasOpts bool // false: only ever mentioned by SetIndexed ("ghost": no options known)
	Ver     int
	Indexed bool // a successful mark-indexed carried exactly the current options since they last changed
	Failed  bool // last mark-indexed was a failure
	Queued  bool
	Blocked bool // in back-off
	Seq     int  // enqueue order among queued items (1..n), 0 when not queued
}

// zz_verif_c30State is comparable (porcupine uses == on it).
type zz_verif_c30State struct {
	It [zz_verif_c30MaxIDs]zz_verif_c30Item
	N  int // number of queued items == largest Seq
}

// feature bits: what a step exercised (used for the case key / evidence)
const (
	fPopChoice = 1 << iota
	fPopIndexedOrder
	fPopFailedOrder
	fPopFIFO
	fPopEmpty
	fUpdQueued
	fBlockedRefused
	fFailCancel
	fOkReposition
	fBumpMissing
	fBumpRequeue
	fMRMRemovedQueued
	fMRMRemovedIdle
	fMRMSkip
	fGhostCreated
	fRevertOpts
	fUnblock
	fPopGhost
	fNFeatures = 18
)

var zz_verif_c30FeatureName = [...]string{"pop_choice", "pop_indexed_vs_stale", "pop_failed_vs_ok", "pop_fifo_tiebreak", "pop_empty",
	"update_while_queued", "enqueue_refused_by_backoff", "fail_cancels_queued", "ok_repositions_queued", "bump_missing",
	"bump_requeues", "remove_missing_queued", "remove_missing_idle", "remove_missing_same_size_skip", "ghost_created",
	"options_reverted", "unblocked_by_success", "pop_ghost"}

func (s *zz_verif_c30State) enqueue(id int) {
	s.N++
	s.It[id].Seq = s.N
	s.It[id].Queued = true
}

func (s *zz_verif_c30State) dequeue(id int) {
	old := s.It[id].Seq
	s.It[id].Queued = false
	s.It[id].Seq = 0
	for i := range s.It {
		if s.It[i].Seq > old {
			s.It[i].Seq--
		}
	}
	s.N--
}

// before reports whether a has priority over b (both queued).
func zz_verif_c30Before(a, b zz_verif_c30Item) bool {
	if a.Indexed != b.Indexed {
		return !a.Indexed
	}
	if a.Failed != b.Failed {
		return !a.Failed
	}
	return a.Seq < b.Seq
}

func (s *zz_verif_c30State) tracked() int {
	n := 0
	for i := range s.It {
		if s.It[i].Tracked {
			n++
		}
	}
	return n
}

func zz_verif_c30Has(ids []int, x int) bool {
	for _, y := range ids {
		if x == y {
			return true
		}
	}
	return false
}

// zz_verif_c30Apply is the sequential specification: the state after the call, the expected
// answer and the features exercised. blocks = back-off is long (1 h), i.e. a failure
// blocks re-enqueueing until the next success.
func zz_verif_c30Apply(s zz_verif_c30State, in zz_verif_c30In, blocks bool) (zz_verif_c30State, zz_verif_c30Out, int) {
	var out zz_verif_c30Out
	feat := 0
	switch in.Kind {
	case zz_verif_c30Add:
		it := &s.It[in.ID]
		if !it.Tracked {
			*it = zz_verif_c30Item{Tracked: true}
		}
		if !it.HasOpts || it.Ver != in.Ver {
			if it.HasOpts && it.Queued {
				feat |= fUpdQueued
			}
			it.HasOpts, it.Ver, it.Indexed = true, in.Ver, false
		}
		if !it.Queued {
			if it.Blocked {
				feat |= fBlockedRefused
			} else {
				s.enqueue(in.ID)
			}
		}
	case zz_verif_c30Pop:
		best := -1
		nq, nIdx, nFail := 0, 0, 0
		for i := range s.It {
			if !s.It[i].Queued {
				continue
			}
			nq++
			if s.It[i].Indexed {
				nIdx++
			}
			if s.It[i].Failed {
				nFail++
			}
			if best < 0 || zz_verif_c30Before(s.It[i], s.It[best]) {
				best = i
			}
		}
		if best < 0 {
			feat |= fPopEmpty
			break
		}
		if nq >= 2 {
			feat |= fPopChoice
			if nIdx > 0 && nIdx < nq {
				feat |= fPopIndexedOrder
			}
			if nFail > 0 && nFail < nq {
				feat |= fPopFailedOrder
			}
			for i := range s.It {
				if i != best && s.It[i].Queued && s.It[i].Indexed == s.It[best].Indexed && s.It[i].Failed == s.It[best].Failed {
					feat |= fPopFIFO
				}
			}
		}
		out.OK = true
		if s.It[best].HasOpts {
			out.ID, out.Ver = best, s.It[best].Ver
		} else {
			out.Ghost = true
			feat |= fPopGhost
		}
		s.dequeue(best)
	case zz_verif_c30Bump:
		miss := map[int]bool{}
		for _, id := range in.IDs {
			it := &s.It[id]
			switch {
			case !it.Tracked:
				miss[id] = true
				feat |= fBumpMissing
			case it.Queued:
			case it.Blocked:
				feat |= fBlockedRefused
			default:
				s.enqueue(id)
				feat |= fBumpRequeue
			}
		}
		for id := range miss {
			out.IDs = append(out.IDs, id)
		}
		sort.Ints(out.IDs)
	case zz_verif_c30SetOK:
		it := &s.It[in.ID]
		if !it.Tracked {
			*it = zz_verif_c30Item{Tracked: true}
			feat |= fGhostCreated
		}
		was := *it
		it.Failed = false
		it.Indexed = it.HasOpts && it.Ver == in.Ver
		if it.Blocked {
			feat |= fUnblock
		}
		it.Blocked = false
		if it.Queued && (was.Indexed != it.Indexed || was.Failed != it.Failed) {
			feat |= fOkReposition
		}
	case zz_verif_c30SetFail:
		it := &s.It[in.ID]
		if !it.Tracked {
			*it = zz_verif_c30Item{Tracked: true}
			feat |= fGhostCreated
		}
		it.Failed = true
		it.Blocked = blocks
		if it.Queued {
			feat |= fFailCancel
			s.dequeue(in.ID)
		}
	case zz_verif_c30MRM:
		if len(in.IDs) == s.tracked() {
			feat |= fMRMSkip // documented heuristic: same size => the call does nothing
			break
		}
		for id := range s.It {
			if !s.It[id].Tracked || zz_verif_c30Has(in.IDs, id) {
				continue
			}
			if s.It[id].Queued {
				feat |= fMRMRemovedQueued
				s.dequeue(id)
			} else {
				feat |= fMRMRemovedIdle
			}
			s.It[id] = zz_verif_c30Item{}
			out.IDs = append(out.IDs, id)
		}
	case zz_verif_c30Len:
		out.N = s.N
	case zz_verif_c30Iter:
		for id := range s.It {
			switch {
			case !s.It[id].Tracked:
			case !s.It[id].HasOpts:
				out.Iter = append(out.Iter, "ghost")
			default:
				out.Iter = append(out.Iter, fmt.Sprintf("%d:%d", id, s.It[id].Ver))
			}
		}
		sort.Strings(out.Iter)
	}
	return s, out, feat
}

// zz_verif_c30Diff compares an expected and an observed answer; "" = equal.
func zz_verif_c30Diff(k zz_verif_c30Kind, exp, got zz_verif_c30Out) string {
	if got.Bad != "" {
		return "corrupt-options"
	}
	switch k {
	case zz_verif_c30Pop:
		switch {
		case exp.OK != got.OK:
			return "empty-mismatch"
		case !exp.OK:
			return ""
		case exp.Ghost != got.Ghost || (!exp.Ghost && exp.ID != got.ID):
			return "wrong-item"
		case !exp.Ghost && exp.Ver != got.Ver:
			return "wrong-options"
		}
	case zz_verif_c30Bump:
		if !reflect.DeepEqual(append([]int{}, exp.IDs...), append([]int{}, got.IDs...)) {
			return "missing-differs"
		}
	case zz_verif_c30MRM:
		if !reflect.DeepEqual(append([]int{}, exp.IDs...), append([]int{}, got.IDs...)) {
			return "removed-differs"
		}
	case zz_verif_c30Len:
		if exp.N != got.N {
			return "len-differs"
		}
	case zz_verif_c30Iter:
		if !reflect.DeepEqual(append([]string{}, exp.Iter...), append([]string{}, got.Iter...)) {
			return "iterate-differs"
		}
	}
	return ""
}

func zz_verif_c30Class(it zz_verif_c30Item) string {
	switch {
	case !it.Tracked:
		return "untracked"
	case !it.HasOpts:
		return "ghost"
	case it.Queued:
		return "queued"
	case it.Blocked:
		return "blocked"
	}
	return "idle"
}

func zz_verif_c30Prio(s zz_verif_c30State, o zz_verif_c30Out) string {
	if !o.OK {
		return "none"
	}
	if o.Ghost {
		return "ghost"
	}
	if o.ID < 0 || o.ID >= zz_verif_c30MaxIDs {
		return "foreign-id"
	}
	it := s.It[o.ID]
	if !it.Queued {
		return "not-queued"
	}
	c := "stale"
	if it.Indexed {
		c = "indexed"
	}
	if it.Failed {
		c += "+failed"
	}
	return c
}

func (s zz_verif_c30State) hasGhost() bool {
	for i := range s.It {
		if s.It[i].Tracked && !s.It[i].HasOpts {
			return true
		}
	}
	return false
}

// zz_verif_c30Target describes the state class of what the call was about (for signatures).
func zz_verif_c30Target(s zz_verif_c30State, in zz_verif_c30In, exp, got zz_verif_c30Out) string {
	switch in.Kind {
	case zz_verif_c30Add, zz_verif_c30SetOK, zz_verif_c30SetFail:
		return zz_verif_c30Class(s.It[in.ID])
	case zz_verif_c30Pop:
		return "want=" + zz_verif_c30Prio(s, exp) + ",got=" + zz_verif_c30Prio(s, got)
	case zz_verif_c30Bump, zz_verif_c30MRM:
		if in.Kind == zz_verif_c30MRM && s.hasGhost() {
			return "ghost-present"
		}
		cl := map[string]bool{}
		for _, l := range [2][2][]int{{exp.IDs, got.IDs}, {got.IDs, exp.IDs}} {
			for _, id := range l[0] {
				if zz_verif_c30Has(l[1], id) {
					continue
				}
				if id < 0 || id >= zz_verif_c30MaxIDs {
					cl["foreign-id"] = true
				} else {
					cl[zz_verif_c30Class(s.It[id])] = true
				}
			}
		}
		var l []string
		for c := range cl {
			l = append(l, c)
		}
		sort.Strings(l)
		return strings.Join(l, "+")
	}
	if s.hasGhost() {
		return "ghost-present"
	}
	return "-"
}

// ---------------------------------------------------------------------------
// (c) white-box walk under q.mu

type zz_verif_c30Walk struct {
	problems []string // "kind: detail"
	tracked  []int    // model ids (real id - 1) of q.items keys
	queued   []int    // model ids of heap entries
	ghosts   int
}

func zz_verif_c30WalkQueue(q *Queue) zz_verif_c30Walk {
	var w zz_verif_c30Walk
	bad := func(kind, f string, a ...any) { w.problems = append(w.problems, kind+": "+fmt.Sprintf(f, a...)) }
	q.mu.Lock()
	defer q.mu.Unlock()
	for i, it := range q.pq {
		if it == nil {
			bad("heap-nil-entry", "pq[%d] is nil", i)
			continue
		}
		if it.heapIdx != i {
			bad("heapIdx", "pq[%d] (repo %d) has heapIdx %d", i, it.repoID, it.heapIdx)
		}
		if q.items[it.repoID] != it {
			bad("heap-item-untracked", "pq[%d] (repo %d) is not the item tracked under its id", i, it.repoID)
		}
		if i > 0 {
			if p := (i - 1) / 2; lessQueueItemPriority(it, q.pq[p]) {
				bad("heap-order", "pq[%d] (repo %d) has priority over its parent pq[%d] (repo %d)", i, it.repoID, p, q.pq[p].repoID)
			}
		}
		if it.seq > q.seq {
			bad("seq", "pq[%d] has seq %d > queue seq %d", i, it.seq, q.seq)
		}
		w.queued = append(w.queued, int(it.repoID)-1)
	}
	seqs := map[int64]uint32{}
	for id, it := range q.items {
		if it == nil {
			bad("items-nil-entry", "items[%d] is nil", id)
			continue
		}
		if it.repoID != id {
			bad("key-mismatch", "items[%d] holds the item of repo %d", id, it.repoID)
		}
		if it.heapIdx >= 0 {
			if it.heapIdx >= len(q.pq) || q.pq[it.heapIdx] != it {
				bad("heapIdx", "items[%d] has heapIdx %d but is not at that heap position (heap len %d)", id, it.heapIdx, len(q.pq))
			} else if o, dup := seqs[it.seq]; dup {
				bad("seq", "repos %d and %d are queued with the same seq %d", o, id, it.seq)
			} else {
				seqs[it.seq] = id
			}
		}
		if reflect.DeepEqual(it.opts, IndexOptions{}) {
			w.ghosts++
		} else if it.opts.RepoID != id {
			bad("opts-key-mismatch", "items[%d] holds options of repo %d", id, it.opts.RepoID)
		}
		w.tracked = append(w.tracked, int(id)-1)
	}
	sort.Ints(w.tracked)
	sort.Ints(w.queued)
	return w
}

func (s zz_verif_c30State) sets() (tracked, queued []int) {
	for i := range s.It {
		if s.It[i].Tracked {
			tracked = append(tracked, i)
		}
		if s.It[i].Queued {
			queued = append(queued, i)
		}
	}
	return
}

func zz_verif_c30SameInts(a, b []int) bool {
	if len(a) != len(b) {
		return false
	}
	for i := range a {
		if a[i] != b[i] {
			return false
		}
	}
	return true
}

func zz_verif_c30ProblemKind(p string) string {
	if i := strings.Index(p, ":"); i > 0 {
		return p[:i]
	}
	return p
}

// ---------------------------------------------------------------------------
// configurations

type zz_verif_c30Cfg struct {
	Name         string
	Backoff, Max time.Duration
	Blocks       bool
}

var zz_verif_c30Cfgs = []zz_verif_c30Cfg{
	{"backoff=0,max=0", 0, 0, false},
	{"backoff=-1,max=-1(disabled)", -1, -1, false},
	{"backoff=0,max=1h", 0, time.Hour, false},
	{"backoff=1h,max=1h", time.Hour, time.Hour, true},
	{"backoff=1h,max=2h", time.Hour, 2 * time.Hour, true},
}

func zz_verif_c30NewQueue(c zz_verif_c30Cfg) *Queue { return NewQueue(c.Backoff, c.Max, sglog.NoOp()) }

var zz_verif_c30OKStates = []indexState{indexStateSuccess, indexStateSuccessMeta, indexStateNoop, indexStateEmpty}

// ---------------------------------------------------------------------------
// (a) sequential histories

type zz_verif_c30Fail struct {
	Sig    string
	What   string
	Step   int
	Exp    zz_verif_c30Out
	Got    zz_verif_c30Out
	Before zz_verif_c30State
}

// zz_verif_c30RunSeq replays ops on a fresh queue and a fresh model; it stops at the first
// divergence. onStep (optional) sees every step's features.
func zz_verif_c30RunSeq(cfg zz_verif_c30Cfg, ops []zz_verif_c30In, onStep func(i int, feat int)) *zz_verif_c30Fail {
	q := zz_verif_c30NewQueue(cfg)
	var s zz_verif_c30State
	for i, in := range ops {
		before := s
		var got zz_verif_c30Out
		if msg, stack, p := kit.Guard(func() { got = zz_verif_c30Exec(q, in) }); p {
			return &zz_verif_c30Fail{Sig: "seq/" + zz_verif_c30KindName[in.Kind] + "/panic/" + kit.PanicSite(stack) + "/" + zz_verif_c30Target(before, in, zz_verif_c30Out{}, zz_verif_c30Out{}),
				What: msg + "\n" + stack, Step: i, Before: before}
		}
		ns, exp, feat := zz_verif_c30Apply(s, in, cfg.Blocks)
		if d := zz_verif_c30Diff(in.Kind, exp, got); d != "" {
			return &zz_verif_c30Fail{Sig: "seq/" + zz_verif_c30KindName[in.Kind] + "/" + d + "/" + zz_verif_c30Target(before, in, exp, got),
				What: fmt.Sprintf("step %d %s: the queue answered %+v, the reference model expects %+v", i, zz_verif_c30Describe(in), got, exp),
				Step: i, Exp: exp, Got: got, Before: before}
		}
		s = ns
		w := zz_verif_c30WalkQueue(q)
		if len(w.problems) > 0 {
			return &zz_verif_c30Fail{Sig: "seq/" + zz_verif_c30KindName[in.Kind] + "/invariant/" + zz_verif_c30ProblemKind(w.problems[0]) + "/" + zz_verif_c30Target(before, in, exp, got),
				What: fmt.Sprintf("after step %d %s the queue's internal state is inconsistent: %s", i, zz_verif_c30Describe(in), strings.Join(w.problems, "; ")),
				Step: i, Exp: exp, Got: got, Before: before}
		}
		mt, mq := s.sets()
		if !zz_verif_c30SameInts(mt, w.tracked) {
			return &zz_verif_c30Fail{Sig: "seq/" + zz_verif_c30KindName[in.Kind] + "/state-differs/tracked/" + zz_verif_c30Target(before, in, exp, got),
				What: fmt.Sprintf("after step %d %s the queue tracks ids %v, the model %v", i, zz_verif_c30Describe(in), w.tracked, mt),
				Step: i, Exp: exp, Got: got, Before: before}
		}
		if !zz_verif_c30SameInts(mq, w.queued) {
			return &zz_verif_c30Fail{Sig: "seq/" + zz_verif_c30KindName[in.Kind] + "/state-differs/queued/" + zz_verif_c30Target(before, in, exp, got),
				What: fmt.Sprintf("after step %d %s the heap holds ids %v, the model has %v queued", i, zz_verif_c30Describe(in), w.queued, mq),
				Step: i, Exp: exp, Got: got, Before: before}
		}
		if onStep != nil {
			onStep(i, feat)
		}
	}
	return nil
}

func zz_verif_c30Describe(in zz_verif_c30In) string {
	switch in.Kind {
	case zz_verif_c30Add:
		return fmt.Sprintf("AddOrUpdate(id=%d,ver=%d)", in.ID, in.Ver)
	case zz_verif_c30SetOK, zz_verif_c30SetFail:
		return fmt.Sprintf("SetIndexed(id=%d,ver=%d,%s)", in.ID, in.Ver, in.State)
	case zz_verif_c30Bump:
		return fmt.Sprintf("Bump(%v)", in.IDs)
	case zz_verif_c30MRM:
		return fmt.Sprintf("MaybeRemoveMissing(%v)", in.IDs)
	}
	return zz_verif_c30KindName[in.Kind] + "()"
}

func zz_verif_c30PickKind(r interface{ IntN(int) int }, w [zz_verif_c30NKinds]int) zz_verif_c30Kind {
	tot := 0
	for _, x := range w {
		tot += x
	}
	n := r.IntN(tot)
	for k, x := range w {
		if n < x {
			return zz_verif_c30Kind(k)
		}
		n -= x
	}
	return zz_verif_c30Len
}

type zz_verif_c30Rand interface {
	IntN(int) int
	Float64() float64
}

// zz_verif_c30GenOp draws the next call given the model state (so that interesting targets —
// queued, popped, blocked, unknown repositories — are hit often). Pure function of
// the PRNG and the model.
func zz_verif_c30GenOp(r zz_verif_c30Rand, s zz_verif_c30State, nIDs, nVer int, w [zz_verif_c30NKinds]int, ghosts bool) zz_verif_c30In {
	in := zz_verif_c30In{Kind: zz_verif_c30PickKind(r, w)}
	pick := func(pred func(zz_verif_c30Item) bool) int {
		var c []int
		for i := 0; i < nIDs; i++ {
			if pred(s.It[i]) {
				c = append(c, i)
			}
		}
		if len(c) == 0 {
			return r.IntN(nIDs)
		}
		return c[r.IntN(len(c))]
	}
	switch in.Kind {
	case zz_verif_c30Add:
		in.ID = r.IntN(nIDs)
		if s.It[in.ID].HasOpts && r.Float64() < 0.55 {
			in.Ver = s.It[in.ID].Ver
		} else {
			in.Ver = r.IntN(nVer)
		}
	case zz_verif_c30SetOK, zz_verif_c30SetFail:
		switch x := r.Float64(); {
		case x < 0.40:
			in.ID = pick(func(it zz_verif_c30Item) bool { return it.Tracked && !it.Queued })
		case x < 0.80:
			in.ID = pick(func(it zz_verif_c30Item) bool { return it.Queued })
		case x < 0.93:
			in.ID = pick(func(it zz_verif_c30Item) bool { return it.Tracked })
		default:
			in.ID = r.IntN(nIDs)
		}
		if !ghosts && !s.It[in.ID].Tracked {
			// this history must not mention unknown repositories in SetIndexed
			in.ID = pick(func(it zz_verif_c30Item) bool { return it.Tracked })
			if !s.It[in.ID].Tracked {
				in.Kind, in.Ver = zz_verif_c30Add, r.IntN(nVer)
				break
			}
		}
		if s.It[in.ID].HasOpts && r.Float64() < 0.75 {
			in.Ver = s.It[in.ID].Ver
		} else {
			in.Ver = r.IntN(nVer)
		}
		if in.Kind == zz_verif_c30SetOK {
			in.State = zz_verif_c30OKStates[r.IntN(len(zz_verif_c30OKStates))]
		} else {
			in.State = indexStateFail
		}
	case zz_verif_c30Bump:
		n := r.IntN(nIDs + 2)
		for i := 0; i < n; i++ {
			in.IDs = append(in.IDs, r.IntN(nIDs))
		}
	case zz_verif_c30MRM:
		in.IDs = []int{}
		switch x := r.Float64(); {
		case x < 0.25: // exactly the tracked ids except a few, plus unknown ones: sizes often equal
			for i := 0; i < nIDs; i++ {
				if s.It[i].Tracked == (r.Float64() < 0.8) {
					in.IDs = append(in.IDs, i)
				}
			}
		default:
			for i := 0; i < nIDs; i++ {
				if r.Float64() < 0.7 {
					in.IDs = append(in.IDs, i)
				}
			}
		}
		if len(in.IDs) > 0 && r.Float64() < 0.12 {
			in.IDs = append(in.IDs, in.IDs[r.IntN(len(in.IDs))]) // duplicate
		}
		// shuffle
		for i := len(in.IDs) - 1; i > 0; i-- {
			j := r.IntN(i + 1)
			in.IDs[i], in.IDs[j] = in.IDs[j], in.IDs[i]
		}
	}
	in.Op = zz_verif_c30KindName[in.Kind]
	return in
}

var zz_verif_c30SeqWeights = [zz_verif_c30NKinds]int{zz_verif_c30Add: 30, zz_verif_c30Pop: 18, zz_verif_c30Bump: 7, zz_verif_c30SetOK: 15, zz_verif_c30SetFail: 8, zz_verif_c30MRM: 6, zz_verif_c30Len: 5, zz_verif_c30Iter: 4}

func zz_verif_c30Sequential(rec *kit.Rec, n int) {
	r := rec.Rand(3001)
	for hi := 0; hi < n; hi++ {
		cfg := zz_verif_c30Cfgs[r.IntN(len(zz_verif_c30Cfgs))]
		nIDs := 2 + r.IntN(zz_verif_c30MaxIDs-1)
		nVer := 2 + r.IntN(2)
		length := 8 + r.IntN(56)
		ghosts := r.IntN(4) == 0 // only these histories call SetIndexed on repositories the queue does not know
		w := zz_verif_c30SeqWeights
		if r.IntN(4) == 0 { // a profile with rare removals so that queues grow and orders matter
			w[zz_verif_c30MRM], w[zz_verif_c30SetFail] = 1, 3
		}
		// generate online against the model (the model is deterministic, so the history
		// is a pure function of the seed), then append a drain that makes the whole final
		// state observable through the API.
		var ops []zz_verif_c30In
		var s zz_verif_c30State
		for i := 0; i < length; i++ {
			in := zz_verif_c30GenOp(r, s, nIDs, nVer, w, ghosts)
			ops = append(ops, in)
			s, _, _ = zz_verif_c30Apply(s, in, cfg.Blocks)
		}
		ops = append(ops, zz_verif_c30In{Kind: zz_verif_c30Len, Op: "Len"}, zz_verif_c30In{Kind: zz_verif_c30Iter, Op: "Iterate"})
		for i := 0; i <= zz_verif_c30MaxIDs; i++ {
			ops = append(ops, zz_verif_c30In{Kind: zz_verif_c30Pop, Op: "Pop"})
		}

		feats := 0
		var s2 zz_verif_c30State
		lastIndexed := map[int]int{} // id -> version last reported as successfully indexed
		fail := zz_verif_c30RunSeq(cfg, ops, func(i int, f int) {
			// options reverted to a value that had been indexed earlier (A -> B -> A):
			// the corner listed in the assumptions; counted so the evidence shows it was run
			in := ops[i]
			switch in.Kind {
			case zz_verif_c30SetOK:
				lastIndexed[in.ID] = in.Ver
			case zz_verif_c30Add:
				if v, ok := lastIndexed[in.ID]; ok && v == in.Ver && s2.It[in.ID].Tracked && s2.It[in.ID].HasOpts && s2.It[in.ID].Ver != in.Ver {
					f |= fRevertOpts
				}
			case zz_verif_c30MRM:
				if f&fMRMSkip != 0 {
					// the accepted same-size heuristic: how often it left a repository tracked
					// that the caller did not list (evidence for the assumption, not judged)
					for id := range s2.It {
						if s2.It[id].Tracked && !zz_verif_c30Has(in.IDs, id) {
							rec.Count("seq_same_size_skip_left_unlisted_repository_tracked", 1)
							break
						}
					}
					break
				}
				for id := range lastIndexed {
					if !zz_verif_c30Has(in.IDs, id) {
						delete(lastIndexed, id)
					}
				}
			}
			s2, _, _ = zz_verif_c30Apply(s2, in, cfg.Blocks)
			feats |= f
			for b := 0; b < fNFeatures; b++ {
				if f&(1<<b) != 0 {
					rec.Count("seq_feature_"+zz_verif_c30FeatureName[b], 1)
				}
			}
		})
		rec.Count("seq_histories", 1)
		if ghosts {
			rec.Count("seq_histories_allowing_unknown_setindexed", 1)
		}
		rec.Count("seq_ops", int64(len(ops)))
		nontrivial := feats&fPopChoice != 0 && feats&^(fPopChoice|fPopIndexedOrder|fPopFailedOrder|fPopFIFO|fPopEmpty) != 0
		rec.Case(fmt.Sprintf("seq|%s|ids=%d|features=%05x", cfg.Name, nIDs, feats), nontrivial, func() any {
			var fs []string
			for b := 0; b < fNFeatures; b++ {
				if feats&(1<<b) != 0 {
					fs = append(fs, zz_verif_c30FeatureName[b])
				}
			}
			return map[string]any{"mode": "sequential", "config": cfg.Name, "ids": nIDs, "ops": len(ops), "features": fs}
		})
		if fail == nil {
			continue
		}
		// shrink: drop calls while the same signature is reported
		small := append([]zz_verif_c30In{}, ops[:fail.Step+1]...)
		for changed := true; changed; {
			changed = false
			for i := len(small) - 1; i >= 0; i-- {
				cand := append(append([]zz_verif_c30In{}, small[:i]...), small[i+1:]...)
				if f := zz_verif_c30RunSeq(cfg, cand, nil); f != nil && f.Sig == fail.Sig {
					small = cand[:f.Step+1]
					changed = true
					if i > len(small) {
						i = len(small)
					}
				}
			}
		}
		f2 := zz_verif_c30RunSeq(cfg, small, nil)
		if f2 == nil {
			f2 = fail
			small = ops[:fail.Step+1]
		}
		rec.Violation(f2.Sig, f2.What, map[string]any{
			"mode": "sequential", "config": cfg.Name, "backoff": cfg.Backoff.String(), "max_backoff": cfg.Max.String(),
			"note":             "ids are 0-based model ids, RepoID = id+1; options of (id,ver) are zz_verif_c30Opts(id,ver); replay: NewQueue(backoff,max), apply 'history' in order",
			"history":          small,
			"expected":         f2.Exp,
			"got":              f2.Got,
			"model_before":     fmt.Sprintf("%+v", f2.Before),
			"original_history": ops[:fail.Step+1],
			"history_index":    hi,
		})
	}
}

// ---------------------------------------------------------------------------
// (b) concurrent histories + porcupine

type zz_verif_c30Rec struct {
	Client int             `json:"client"`
	In     zz_verif_c30In  `json:"in"`
	Out    zz_verif_c30Out `json:"out"`
	Call   int64           `json:"call"`
	Ret    int64           `json:"ret"`
}

type zz_verif_c30Planned struct {
	In        zz_verif_c30In
	UsePopped bool // SetIndexed: use the options this client popped last (if any)
	Yield     bool
}

type zz_verif_c30Hist struct {
	Index   int
	Cfg     zz_verif_c30Cfg
	Clients int
	NIDs    int
	Recs    []zz_verif_c30Rec
	Walk    zz_verif_c30Walk
	Profile string
	Panic   string // "<op>/<site>\nmessage\nstack" when a client call panicked
}

// zz_verif_c30Wait waits for the clients, or for the first panic among them.
func zz_verif_c30Wait(wg *sync.WaitGroup, panicked chan string) string {
	done := make(chan struct{})
	go func() { wg.Wait(); close(done) }()
	select {
	case <-done:
		select {
		case p := <-panicked:
			return p
		default:
			return ""
		}
	case p := <-panicked:
		return p
	}
}

var zz_verif_c30ConcWeights = [zz_verif_c30NKinds]int{zz_verif_c30Add: 28, zz_verif_c30Pop: 22, zz_verif_c30Bump: 8, zz_verif_c30SetOK: 14, zz_verif_c30SetFail: 7, zz_verif_c30MRM: 6, zz_verif_c30Len: 8, zz_verif_c30Iter: 5}

func zz_verif_c30GenHistory(r zz_verif_c30Rand, idx int) *zz_verif_c30Hist {
	h := &zz_verif_c30Hist{Index: idx, Cfg: zz_verif_c30Cfgs[r.IntN(len(zz_verif_c30Cfgs))], Clients: 2 + r.IntN(4), NIDs: 1 + r.IntN(4)}
	nVer := 2 + r.IntN(2)
	// profiles: "full" mixes everything (SetIndexed may hit a repository that a concurrent
	// MaybeRemoveMissing just removed, i.e. an unknown one); the other two cannot mention an
	// unknown repository in SetIndexed: "no-remove" has no MaybeRemoveMissing among the
	// clients, "no-setindexed" has no SetIndexed among the clients.
	cw := zz_verif_c30ConcWeights
	ghosts := false
	switch x := r.IntN(10); {
	case x < 3:
		h.Profile = "no-remove"
		cw[zz_verif_c30MRM] = 0
	case x < 6:
		h.Profile = "no-setindexed"
		cw[zz_verif_c30SetOK], cw[zz_verif_c30SetFail] = 0, 0
	default:
		h.Profile = "full"
		ghosts = true
	}
	q := zz_verif_c30NewQueue(h.Cfg)
	var clock atomic.Int64
	do := func(client int, in zz_verif_c30In) zz_verif_c30Rec {
		rc := zz_verif_c30Rec{Client: client, In: in}
		rc.Call = clock.Add(1)
		rc.Out = zz_verif_c30Exec(q, in)
		rc.Ret = clock.Add(1)
		return rc
	}
	// sequential prefix by the observer client (id = Clients): seeds some state
	obs := h.Clients
	var s zz_verif_c30State
	for i, n := 0, r.IntN(9); i < n; i++ {
		in := zz_verif_c30GenOp(r, s, h.NIDs, nVer, zz_verif_c30SeqWeights, ghosts)
		h.Recs = append(h.Recs, do(obs, in))
		s, _, _ = zz_verif_c30Apply(s, in, h.Cfg.Blocks) // only used to aim the generator
	}
	// plans
	plans := make([][]zz_verif_c30Planned, h.Clients)
	for c := range plans {
		for i, n := 0, 1+r.IntN(8); i < n; i++ {
			p := zz_verif_c30Planned{In: zz_verif_c30GenOp(r, s, h.NIDs, nVer, cw, ghosts), Yield: r.IntN(3) == 0}
			if (p.In.Kind == zz_verif_c30SetOK || p.In.Kind == zz_verif_c30SetFail) && r.Float64() < 0.6 {
				p.UsePopped = true
			}
			plans[c] = append(plans[c], p)
		}
	}
	var start atomic.Bool
	var wg sync.WaitGroup
	out := make([][]zz_verif_c30Rec, h.Clients)
	panicked := make(chan string, h.Clients)
	for c := 0; c < h.Clients; c++ {
		wg.Add(1)
		go func(c int) {
			defer wg.Done()
			havePopped, pid, pver := false, 0, 0
			for !start.Load() {
			}
			for _, p := range plans[c] {
				in := p.In
				if p.UsePopped && havePopped {
					in.ID, in.Ver = pid, pver
				}
				var rc zz_verif_c30Rec
				if msg, stack, pn := kit.Guard(func() { rc = do(c, in) }); pn {
					panicked <- zz_verif_c30KindName[in.Kind] + "/" + kit.PanicSite(stack) + "\n" + msg + "\n" + stack
					return
				}
				if in.Kind == zz_verif_c30Pop && rc.Out.OK && !rc.Out.Ghost && rc.Out.Bad == "" && rc.Out.ID >= 0 && rc.Out.ID < zz_verif_c30MaxIDs {
					havePopped, pid, pver = true, rc.Out.ID, rc.Out.Ver
				}
				out[c] = append(out[c], rc)
				if p.Yield {
					runtime.Gosched()
				}
			}
		}(c)
	}
	start.Store(true)
	if h.Panic = zz_verif_c30Wait(&wg, panicked); h.Panic != "" {
		// a panic inside the queue leaves q.mu locked: the other clients may be blocked
		// for ever; they are abandoned together with this queue.
		return h
	}
	for c := range out {
		h.Recs = append(h.Recs, out[c]...)
	}
	// quiescent: white-box walk, then an observer suffix that exposes the final state
	h.Walk = zz_verif_c30WalkQueue(q)
	h.Recs = append(h.Recs, do(obs, zz_verif_c30In{Kind: zz_verif_c30Len, Op: "Len"}), do(obs, zz_verif_c30In{Kind: zz_verif_c30Iter, Op: "Iterate"}))
	for i := 0; i <= zz_verif_c30MaxIDs+1; i++ {
		rc := do(obs, zz_verif_c30In{Kind: zz_verif_c30Pop, Op: "Pop"})
		h.Recs = append(h.Recs, rc)
		if !rc.Out.OK {
			break
		}
	}
	return h
}

// zz_verif_c30Step is the porcupine step function. It is zz_verif_c30Apply + zz_verif_c30Diff, except for
// MaybeRemoveMissing, which the queue performs in two critical sections (size test,
// then removal): a call that answered "nothing removed" is legal if the sizes were
// equal (skip) or nothing had to be removed; a call that removed is legal if it
// removed exactly tracked \ ids, whatever the sizes were at that moment.
//
// diag is 0 for the verdict. The diag bits are used only AFTER a history has been
// found not linearizable, to label the violation with a stable signature: each bit
// relaxes the specification towards one known way the code deviates, and the label
// says which relaxation (if any) explains the history. They never turn a violation
// into a pass.
const (
	zz_verif_c30DiagGhostKey = 1 << iota // MaybeRemoveMissing looks option-less items up under RepoID 0: reports 0, keeps the item tracked
	zz_verif_c30DiagPopOpts              // Pop may return options stored by an AddOrUpdate that ran after the pop
)

func zz_verif_c30Step(blocks bool, diag int) func(st, in, out any) (bool, any) {
	return func(st, inp, outp any) (bool, any) {
		s, in, got := st.(zz_verif_c30State), inp.(zz_verif_c30In), outp.(zz_verif_c30Out)
		if in.Kind == zz_verif_c30MRM && diag&zz_verif_c30DiagGhostKey != 0 && s.hasGhost() {
			if len(got.IDs) == 0 {
				return len(in.IDs) == s.tracked(), s
			}
			forced := s
			var rm []int
			for id := range forced.It {
				it := &forced.It[id]
				switch {
				case !it.Tracked:
				case !it.HasOpts:
					if it.Queued {
						forced.dequeue(id)
					}
					it.Failed = false
					rm = append(rm, -1)
				case !zz_verif_c30Has(in.IDs, id):
					if it.Queued {
						forced.dequeue(id)
					}
					*it = zz_verif_c30Item{}
					rm = append(rm, id)
				}
			}
			sort.Ints(rm)
			return zz_verif_c30SameInts(rm, got.IDs), forced
		}
		if in.Kind == zz_verif_c30Pop && diag&zz_verif_c30DiagPopOpts != 0 {
			ns, exp, _ := zz_verif_c30Apply(s, in, blocks)
			if exp.OK != got.OK || got.Bad != "" {
				return false, ns
			}
			if !exp.OK {
				return true, ns
			}
			popped := -1
			for id := range s.It {
				if s.It[id].Queued && !ns.It[id].Queued {
					popped = id
				}
			}
			if got.Ghost {
				return exp.Ghost, ns
			}
			return got.ID == popped, ns
		}
		if in.Kind == zz_verif_c30MRM {
			forced := s
			var rm []int
			for id := range forced.It {
				if forced.It[id].Tracked && !zz_verif_c30Has(in.IDs, id) {
					if forced.It[id].Queued {
						forced.dequeue(id)
					}
					forced.It[id] = zz_verif_c30Item{}
					rm = append(rm, id)
				}
			}
			if len(got.IDs) == 0 {
				return len(rm) == 0 || len(in.IDs) == s.tracked(), s
			}
			return zz_verif_c30SameInts(rm, got.IDs), forced
		}
		ns, exp, _ := zz_verif_c30Apply(s, in, blocks)
		return zz_verif_c30Diff(in.Kind, exp, got) == "", ns
	}
}

func zz_verif_c30Overlaps(recs []zz_verif_c30Rec) (pairs int) {
	for i := range recs {
		for j := i + 1; j < len(recs); j++ {
			a, b := recs[i], recs[j]
			if a.Client != b.Client && a.Call < b.Ret && b.Call < a.Ret {
				pairs++
			}
		}
	}
	return
}

func zz_verif_c30CheckHistory(rec *kit.Rec, h *zz_verif_c30Hist, timeout time.Duration) {
	rec.Count("conc_histories", 1)
	if h.Panic != "" {
		first, rest, _ := strings.Cut(h.Panic, "\n")
		rec.Violation("conc/panic/"+first, rest, map[string]any{"config": h.Cfg.Name, "clients": h.Clients, "profile": h.Profile, "history_index": h.Index,
			"note": "a queue call panicked in a client goroutine during a concurrent history; calls completed before are not recorded"})
		return
	}
	rec.Count("conc_ops", int64(len(h.Recs)))
	pairs := zz_verif_c30Overlaps(h.Recs)
	rec.Count("conc_overlapping_call_pairs", int64(pairs))
	rec.Max("max_overlapping_call_pairs_in_a_history", int64(pairs))
	if pairs > 0 {
		rec.Count("conc_histories_with_overlap", 1)
	}
	if len(h.Walk.problems) > 0 {
		rec.Violation("conc/invariant/"+zz_verif_c30ProblemKind(h.Walk.problems[0]),
			"queue internal state inconsistent at quiescence after a concurrent history: "+strings.Join(h.Walk.problems, "; "),
			zz_verif_c30Witness(h, nil))
	}
	if h.Walk.ghosts > 0 {
		rec.Count("conc_histories_ending_with_ghost_items", 1)
	}
	ops := make([]porcupine.Operation, len(h.Recs))
	kinds := make([]string, 0, len(h.Recs))
	popOK := false
	for i, rc := range h.Recs {
		ops[i] = porcupine.Operation{ClientId: rc.Client, Input: rc.In, Call: rc.Call, Output: rc.Out, Return: rc.Ret}
		if rc.Client != h.Clients {
			kinds = append(kinds, zz_verif_c30KindLetter[rc.In.Kind])
			if rc.In.Kind == zz_verif_c30Pop && rc.Out.OK {
				popOK = true
			}
		}
		if rc.Out.Bad != "" {
			rec.Violation("conc/"+zz_verif_c30KindName[rc.In.Kind]+"/corrupt-options", rc.Out.Bad, zz_verif_c30Witness(h, nil))
		}
	}
	sort.Strings(kinds)
	kindSet := ""
	for i, k := range kinds {
		if i == 0 || kinds[i-1] != k {
			kindSet += k
		}
	}
	rec.Count("conc_profile_"+h.Profile, 1)
	model := porcupine.Model{Init: func() any { return zz_verif_c30State{} }, Step: zz_verif_c30Step(h.Cfg.Blocks, 0)}
	res, info := porcupine.CheckOperationsVerbose(model, ops, timeout)
	ob := "0"
	switch {
	case pairs >= 20:
		ob = "20+"
	case pairs >= 5:
		ob = "5-19"
	case pairs >= 1:
		ob = "1-4"
	}
	key := fmt.Sprintf("conc|%s|%s|clients=%d|ids=%d|kinds=%s|n=%d|overlap=%s", h.Cfg.Name, h.Profile, h.Clients, h.NIDs, kindSet, len(kinds)/8, ob)
	switch res {
	case porcupine.Unknown:
		rec.Count("conc_inconclusive_porcupine_timeout", 1)
		rec.Case(key, false, nil)
		return
	case porcupine.Ok:
		rec.Count("conc_linearizable", 1)
	}
	rec.Case(key, pairs > 0 && popOK, func() any {
		return map[string]any{"mode": "concurrent", "config": h.Cfg.Name, "profile": h.Profile, "clients": h.Clients, "ids": h.NIDs,
			"client_ops": strings.Join(kinds, ""), "overlapping_call_pairs": pairs, "porcupine": string(res)}
	})
	if res != porcupine.Illegal {
		return
	}
	// culprit: the earliest-invoked call that is not part of the longest partial
	// linearization; its target class is taken from the model state after that prefix.
	var best []int
	for _, part := range info.PartialLinearizations() {
		for _, l := range part {
			if len(l) > len(best) {
				best = l
			}
		}
	}
	in := map[int]bool{}
	s := zz_verif_c30State{}
	step := zz_verif_c30Step(h.Cfg.Blocks, 0)
	for _, id := range best {
		in[id] = true
		_, ns := step(s, h.Recs[id].In, h.Recs[id].Out)
		s = ns.(zz_verif_c30State)
	}
	culprit := -1
	for i, rc := range h.Recs {
		if !in[i] && (culprit < 0 || rc.Call < h.Recs[culprit].Call) {
			culprit = i
		}
	}
	// label: which known deviation (if any) explains the history
	label := "unexplained"
	for _, d := range []struct {
		mask int
		name string
	}{
		{zz_verif_c30DiagGhostKey, "MaybeRemoveMissing-keys-items-by-options.RepoID"},
		{zz_verif_c30DiagPopOpts, "Pop-returns-options-stored-after-the-pop"},
		{zz_verif_c30DiagGhostKey | zz_verif_c30DiagPopOpts, "MaybeRemoveMissing-keys-items-by-options.RepoID+Pop-returns-options-stored-after-the-pop"},
	} {
		m := porcupine.Model{Init: func() any { return zz_verif_c30State{} }, Step: zz_verif_c30Step(h.Cfg.Blocks, d.mask)}
		r := porcupine.CheckOperationsTimeout(m, ops, timeout)
		if r == porcupine.Ok {
			label = "explained-by/" + d.name
			break
		}
		if r == porcupine.Unknown {
			label = "unclassified-porcupine-timeout"
			break
		}
	}
	sig, what := "conc/not-linearizable/"+label, "porcupine found no linearization of the recorded history against the reference model ("+label+")"
	if culprit >= 0 {
		rc := h.Recs[culprit]
		_, exp, _ := zz_verif_c30Apply(s, rc.In, h.Cfg.Blocks)
		if label == "unexplained" {
			sig += "/" + zz_verif_c30KindName[rc.In.Kind]
		}
		what += fmt.Sprintf("; after the longest linearizable prefix (%d of %d calls) client %d's %s answered %+v, the model would answer %+v",
			len(best), len(h.Recs), rc.Client, zz_verif_c30Describe(rc.In), rc.Out, exp)
	}
	rec.Violation(sig, what, zz_verif_c30Witness(h, best))
}

func zz_verif_c30Witness(h *zz_verif_c30Hist, prefix []int) map[string]any {
	recs := append([]zz_verif_c30Rec{}, h.Recs...)
	sort.Slice(recs, func(i, j int) bool { return recs[i].Call < recs[j].Call })
	return map[string]any{"mode": "concurrent", "config": h.Cfg.Name, "backoff": h.Cfg.Backoff.String(), "max_backoff": h.Cfg.Max.String(),
		"clients": h.Clients, "observer_client": h.Clients, "history_index": h.Index, "profile": h.Profile,
		"note":                             "calls sorted by invocation stamp; [call,ret] are stamps of one shared counter; ids are 0-based model ids (RepoID = id+1)",
		"history":                          recs,
		"longest_linearizable_prefix_idxs": prefix, "walk_problems": h.Walk.problems}
}

func zz_verif_c30Concurrent(rec *kit.Rec, n int, timeout time.Duration) {
	r := rec.Rand(3002)
	const batch = 250
	workers := runtime.GOMAXPROCS(0) - 2
	if workers < 2 {
		workers = 2
	}
	for done := 0; done < n; done += batch {
		m := batch
		if n-done < m {
			m = n - done
		}
		hs := make([]*zz_verif_c30Hist, m)
		for i := range hs {
			// the observer's own calls (prefix / drain) run on this goroutine: contain a panic
			if msg, stack, pn := kit.Guard(func() { hs[i] = zz_verif_c30GenHistory(r, done+i) }); pn {
				hs[i] = &zz_verif_c30Hist{Index: done + i, Cfg: zz_verif_c30Cfgs[0], Profile: "?", Panic: "observer/" + kit.PanicSite(stack) + "\n" + msg + "\n" + stack}
			}
		}
		var wg sync.WaitGroup
		ch := make(chan *zz_verif_c30Hist)
		for w := 0; w < workers; w++ {
			wg.Add(1)
			go func() {
				defer wg.Done()
				for h := range ch {
					zz_verif_c30CheckHistory(rec, h, timeout)
				}
			}()
		}
		for _, h := range hs {
			ch <- h
		}
		close(ch)
		wg.Wait()
	}
}

// ---------------------------------------------------------------------------
// (d) unrecorded stress: no harness synchronisation between the clients, so the race
// detector sees the queue's own synchronisation only; (c) walk at the end.

func zz_verif_c30Stress(rec *kit.Rec, n int) {
	r := rec.Rand(3003)
	for si := 0; si < n; si++ {
		cfg := zz_verif_c30Cfgs[r.IntN(len(zz_verif_c30Cfgs))]
		clients := 2 + r.IntN(7)
		nIDs := 1 + r.IntN(4)
		q := zz_verif_c30NewQueue(cfg)
		plans := make([][]zz_verif_c30In, clients)
		var s zz_verif_c30State
		for c := range plans {
			for i, m := 0, 10+r.IntN(50); i < m; i++ {
				plans[c] = append(plans[c], zz_verif_c30GenOp(r, s, nIDs, 3, zz_verif_c30ConcWeights, true))
			}
		}
		var start atomic.Bool
		var wg sync.WaitGroup
		var pops, bad atomic.Int64
		var badMsg atomic.Value
		panicked := make(chan string, clients)
		for c := range plans {
			wg.Add(1)
			go func(ops []zz_verif_c30In) {
				defer wg.Done()
				for !start.Load() {
				}
				for _, in := range ops {
					var out zz_verif_c30Out
					if msg, stack, pn := kit.Guard(func() { out = zz_verif_c30Exec(q, in) }); pn {
						panicked <- zz_verif_c30KindName[in.Kind] + "/" + kit.PanicSite(stack) + "\n" + msg + "\n" + stack
						return
					}
					if out.OK {
						pops.Add(1)
					}
					if out.Bad != "" {
						bad.Add(1)
						badMsg.Store(out.Bad)
					}
				}
			}(plans[c])
		}
		start.Store(true)
		rec.Count("stress_runs", 1)
		if pn := zz_verif_c30Wait(&wg, panicked); pn != "" {
			first, rest, _ := strings.Cut(pn, "\n")
			rec.Violation("stress/panic/"+first, rest, map[string]any{"config": cfg.Name, "clients": clients, "ids": nIDs, "run": si, "plans": plans})
			continue // q.mu may be locked for ever: abandon this queue and its clients
		}
		rec.Count("stress_successful_pops", pops.Load())
		if bad.Load() > 0 {
			rec.Violation("stress/corrupt-options", fmt.Sprint(badMsg.Load()), map[string]any{"config": cfg.Name, "clients": clients, "ids": nIDs, "run": si})
		}
		if w := zz_verif_c30WalkQueue(q); len(w.problems) > 0 {
			rec.Violation("stress/invariant/"+zz_verif_c30ProblemKind(w.problems[0]),
				"queue internal state inconsistent at quiescence after concurrent stress: "+strings.Join(w.problems, "; "),
				map[string]any{"config": cfg.Name, "clients": clients, "ids": nIDs, "run": si, "plans": plans})
		}
	}
}

func TestVerif_C30(t *testing.T) {
	rec := kit.Open("C30")
	defer rec.Done()
	t0 := time.Now()
	zz_verif_c30Sequential(rec, rec.N(6000, 200000))
	t1 := time.Now()
	zz_verif_c30Concurrent(rec, rec.N(2500, 30000), time.Duration(rec.N(10, 20))*time.Second)
	t2 := time.Now()
	zz_verif_c30Stress(rec, rec.N(300, 2000))
	// evidence only (never an oracle)
	rec.Note("phase_seconds", map[string]float64{"sequential": t1.Sub(t0).Seconds(), "concurrent": t2.Sub(t1).Seconds(), "stress": time.Since(t2).Seconds()})
}
