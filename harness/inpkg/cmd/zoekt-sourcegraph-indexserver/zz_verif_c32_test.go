package main

// C32: cleanup never loses an assigned repository.
//
// Runtime monitor: random index directories are built from real shards (simple,
// multi-shard, compound, sidecars, tombstones, .trash with old / fresh / future
// mtimes, renamed repositories, *.tmp leftovers); the production cleanup() is run
// for 1-4 rounds with an explicit, advancing `now`; the directory is snapshotted
// before and after every round and the four clauses of the property statement
// are judged on the two snapshots. Nothing is predicted: the oracle only states
// which transitions the statement forbids.

import (
	"bytes"
	"context"
	"crypto/sha1"
	"encoding/hex"
	"fmt"
	"io"
	"log"
	"math/rand/v2"
	"net/url"
	"os"
	"path/filepath"
	"sort"
	"strings"
	"testing"
	"time"

	"github.com/sourcegraph/zoekt"
	"github.com/sourcegraph/zoekt/index"
	kit "github.com/sourcegraph/zoekt/internal/verifkit"
	"github.com/sourcegraph/zoekt/query"
	"github.com/sourcegraph/zoekt/search"
)

const c32Marker = "ctwoneedle"

// ---------------------------------------------------------------------------
// snapshot of an index directory

type c32Ent struct {
	ID   uint32
	Name string
	Tomb bool
}

type c32File struct {
	Base     string
	Hash     string
	Meta     string // content of the .meta sidecar ("" = none)
	MTime    time.Time
	Ents     []c32Ent
	Compound bool
	Err      string
}

func (f *c32File) alive(id uint32) bool {
	for _, e := range f.Ents {
		if e.ID == id && !e.Tomb {
			return true
		}
	}
	return false
}

func (f *c32File) tomb(id uint32) bool {
	for _, e := range f.Ents {
		if e.ID == id && e.Tomb {
			return true
		}
	}
	return false
}

type c32Snap struct {
	Index, Trash           map[string]*c32File
	Other, TrashOther      []string // every other directory entry (dirs end in "/")
	aliveIdx, aliveTrash   map[uint32][]*c32File
	tombIdx                map[uint32][]*c32File
	namesIdx, namesInTrash map[uint32]map[string]bool
}

func c32HashFile(p string) string {
	b, err := os.ReadFile(p)
	if err != nil {
		return "unreadable:" + err.Error()
	}
	h := sha1.Sum(b)
	return hex.EncodeToString(h[:6])
}

func c32ReadDir(dir string) (map[string]*c32File, []string) {
	files := map[string]*c32File{}
	var other []string
	ents, err := os.ReadDir(dir)
	if err != nil {
		return files, other
	}
	names := map[string]bool{}
	for _, e := range ents {
		names[e.Name()] = true
	}
	for _, e := range ents {
		n := e.Name()
		p := filepath.Join(dir, n)
		if e.IsDir() {
			if n != ".trash" {
				other = append(other, n+"/")
			}
			continue
		}
		if strings.HasSuffix(n, ".zoekt") {
			f := &c32File{Base: n, Hash: c32HashFile(p), Compound: strings.HasPrefix(n, "compound-")}
			if fi, err := os.Stat(p); err == nil {
				f.MTime = fi.ModTime()
			}
			if b, err := os.ReadFile(p + ".meta"); err == nil {
				f.Meta = string(b)
			}
			repos, _, err := index.ReadMetadataPath(p)
			if err != nil {
				f.Err = err.Error()
			}
			for _, r := range repos {
				f.Ents = append(f.Ents, c32Ent{ID: r.ID, Name: r.Name, Tomb: r.Tombstone})
			}
			files[n] = f
			continue
		}
		if strings.HasSuffix(n, ".zoekt.meta") && names[strings.TrimSuffix(n, ".meta")] {
			continue // sidecar, recorded with its shard
		}
		other = append(other, n)
	}
	sort.Strings(other)
	return files, other
}

func c32TakeSnap(dir string) *c32Snap {
	s := &c32Snap{aliveIdx: map[uint32][]*c32File{}, aliveTrash: map[uint32][]*c32File{}, tombIdx: map[uint32][]*c32File{},
		namesIdx: map[uint32]map[string]bool{}, namesInTrash: map[uint32]map[string]bool{}}
	s.Index, s.Other = c32ReadDir(dir)
	s.Trash, s.TrashOther = c32ReadDir(filepath.Join(dir, ".trash"))
	add := func(m map[uint32]map[string]bool, id uint32, n string) {
		if m[id] == nil {
			m[id] = map[string]bool{}
		}
		m[id][n] = true
	}
	for _, b := range c32SortedBases(s.Index) {
		f := s.Index[b]
		for _, e := range f.Ents {
			if e.Tomb {
				s.tombIdx[e.ID] = append(s.tombIdx[e.ID], f)
			} else {
				s.aliveIdx[e.ID] = append(s.aliveIdx[e.ID], f)
				add(s.namesIdx, e.ID, e.Name)
			}
		}
	}
	for _, b := range c32SortedBases(s.Trash) {
		f := s.Trash[b]
		for _, e := range f.Ents {
			if !e.Tomb {
				s.aliveTrash[e.ID] = append(s.aliveTrash[e.ID], f)
				add(s.namesInTrash, e.ID, e.Name)
			}
		}
	}
	return s
}

func c32SortedBases(m map[string]*c32File) []string {
	var l []string
	for b := range m {
		l = append(l, b)
	}
	sort.Strings(l)
	return l
}

func c32SortedIDs[T any](m map[uint32]T) []uint32 {
	var l []uint32
	for id := range m {
		l = append(l, id)
	}
	sort.Slice(l, func(i, j int) bool { return l[i] < l[j] })
	return l
}

func (f *c32File) line(where string, withTime bool) string {
	var es []string
	for _, e := range f.Ents {
		st := "alive"
		if e.Tomb {
			st = "TOMBSTONED"
		}
		es = append(es, fmt.Sprintf("%d:%s:%s", e.ID, e.Name, st))
	}
	s := fmt.Sprintf("%s/%s #%s [%s]", where, f.Base, f.Hash, strings.Join(es, " "))
	if f.Meta != "" {
		h := sha1.Sum([]byte(f.Meta))
		s += " +meta#" + hex.EncodeToString(h[:4])
	}
	if withTime {
		s += " mtime=" + f.MTime.UTC().Format("2006-01-02T15:04:05.000000000Z")
	}
	if f.Err != "" {
		s += " ERR=" + f.Err
	}
	return s
}

// listing renders the snapshot for witnesses and for the idempotence comparison.
// Index mtimes are not part of the state (cleanup never looks at them).
func (s *c32Snap) listing() []string {
	var out []string
	for _, b := range c32SortedBases(s.Index) {
		out = append(out, s.Index[b].line("index", false))
	}
	for _, n := range s.Other {
		out = append(out, "index/"+n+" (other)")
	}
	for _, b := range c32SortedBases(s.Trash) {
		out = append(out, s.Trash[b].line(".trash", true))
	}
	for _, n := range s.TrashOther {
		out = append(out, ".trash/"+n+" (other)")
	}
	return out
}

// ---------------------------------------------------------------------------
// world: one generated directory and the record of what was built into it

type c32Repo struct {
	ID   uint32
	Name string
	Kind string
}

type c32Member struct {
	id      uint32
	name    string
	tomb    bool
	variant string
}

type c32World struct {
	r          *rand.Rand
	dir        string
	trash      string
	scratch    string
	now0       time.Time
	pool       []c32Repo
	generation string // distinguishes shards written between rounds from the initial ones
	repos      []*c32Repo
	feat       map[string]bool
	recipe     []string
	expDocs    map[string]map[uint32][]string // shard hash -> repo id -> sorted document names
	usedIDs    map[uint32]bool
}

func (w *c32World) nameOf(id uint32) string {
	for _, rp := range w.pool {
		if rp.ID == id {
			return rp.Name
		}
	}
	return fmt.Sprintf("r%d", id)
}

func (w *c32World) note(format string, a ...any) {
	w.recipe = append(w.recipe, fmt.Sprintf(format, a...))
}

func c32Base(name string, n int) string {
	return fmt.Sprintf("%s_v%d.%05d.zoekt", url.QueryEscape(name), index.IndexFormatVersion, n)
}

func (w *c32World) newID() uint32 {
	for {
		rp := w.pool[w.r.IntN(len(w.pool))]
		if !w.usedIDs[rp.ID] {
			w.usedIDs[rp.ID] = true
			return rp.ID
		}
	}
}

// Building a ShardBuilder allocates ~32 MB, so shard images are built once per
// (repository id, name, variant) and run, and written out wherever a case needs
// them. The image of a variant is fixed for the run; files never are shared
// between cases.
type c32Image struct {
	data []byte
	docs []string
}

var (
	c32Images   = map[string]*c32Image{}
	c32ImageRnd *rand.Rand
	c32Serial   int
)

var c32Epoch = time.Date(2024, 1, 1, 0, 0, 0, 0, time.UTC)

func c32ShardImage(id uint32, name, variant string) (*c32Image, error) {
	key := fmt.Sprintf("%d|%s|%s", id, name, variant)
	if im := c32Images[key]; im != nil {
		return im, nil
	}
	c32Serial++
	repo := &zoekt.Repository{
		ID: id, Name: name,
		Branches:         []zoekt.RepositoryBranch{{Name: "HEAD", Version: fmt.Sprintf("v%d", c32Serial)}},
		LatestCommitDate: c32Epoch.Add(-time.Duration(c32ImageRnd.IntN(5000)) * time.Hour),
		RawConfig:        map[string]string{"public": "1"},
	}
	b, err := index.NewShardBuilder(repo)
	if err != nil {
		return nil, err
	}
	im := &c32Image{}
	nd := 1 + c32ImageRnd.IntN(3)
	for k := 0; k < nd; k++ {
		dn := fmt.Sprintf("s%d/doc%d.txt", c32Serial, k)
		content := fmt.Sprintf("%s repo %d build %d doc %d\nsecond line of %s\n", c32Marker, id, c32Serial, k, name)
		if err := b.Add(index.Document{Name: dn, Content: []byte(content), Branches: []string{"HEAD"}}); err != nil {
			return nil, err
		}
		im.docs = append(im.docs, dn)
	}
	sort.Strings(im.docs)
	var buf bytes.Buffer
	if err := b.Write(&buf); err != nil {
		return nil, err
	}
	im.data = buf.Bytes()
	c32Images[key] = im
	return im, nil
}

// writeShard writes one simple shard for (id, name, variant) to path and returns
// its document names.
func (w *c32World) writeShard(path string, id uint32, name, variant string) ([]string, error) {
	im, err := c32ShardImage(id, name, variant)
	if err != nil {
		return nil, err
	}
	tmp := path + ".c32build"
	if err := os.WriteFile(tmp, im.data, 0o644); err != nil {
		return nil, err
	}
	return im.docs, os.Rename(tmp, path)
}

// addSimple builds a simple shard in the index dir or the trash.
func (w *c32World) addSimple(inTrash bool, base string, id uint32, name string, mtime time.Time, sidecarName string) error {
	dir, where := w.dir, "index"
	if inTrash {
		dir, where = w.trash, ".trash"
	}
	if err := os.MkdirAll(dir, 0o755); err != nil {
		return err
	}
	p := filepath.Join(dir, base)
	if _, err := os.Stat(p); err == nil {
		return fmt.Errorf("harness: %s/%s exists already", where, base)
	}
	docs, err := w.writeShard(p, id, name, fmt.Sprintf("%s:%s:%s", where, base, w.generation))
	if err != nil {
		return err
	}
	w.expDocs[c32HashFile(p)] = map[uint32][]string{id: docs}
	if sidecarName != "" {
		// format 16 sidecars hold one repository object (see mergeMeta).
		repos, _, err := index.ReadMetadataPath(p)
		if err != nil || len(repos) != 1 {
			return fmt.Errorf("harness: read back %s: %v", p, err)
		}
		repos[0].Name = sidecarName
		repos[0].Rank = uint16(w.r.IntN(1000))
		tmp, dst, err := index.JsonMarshalRepoMetaTemp(p, repos[0])
		if err != nil {
			return err
		}
		if err := os.Rename(tmp, dst); err != nil {
			return err
		}
		w.feat["sidecar"] = true
	}
	if err := os.Chtimes(p, mtime, mtime); err != nil {
		return err
	}
	w.note("%s/%s id=%d name=%q docs=%d sidecar_name=%q mtime=now0%+v", where, base, id, name, len(docs), sidecarName, mtime.Sub(w.now0))
	return nil
}

func (w *c32World) idxTime() time.Time {
	// index mtimes are irrelevant to the statement; spread them around now0 so
	// that nothing depends on the wall clock of the build.
	return w.now0.Add(-time.Duration(w.r.IntN(200*3600)) * time.Second).Add(time.Duration(w.r.IntN(2)) * 50 * time.Hour)
}

func (w *c32World) maybeSidecar(name string) string {
	if w.r.IntN(4) == 0 {
		return name
	}
	return ""
}

type c32Age struct {
	label string
	d     time.Duration // mtime = now0 - d
}

var c32Ages = []c32Age{
	{"future", -30 * time.Minute}, {"future", -5 * time.Hour},
	{"fresh", 0}, {"fresh", 10 * time.Minute}, {"fresh", 2 * time.Hour}, {"fresh", 12 * time.Hour},
	{"fresh", 24*time.Hour - time.Second}, {"fresh", 24 * time.Hour},
	{"old", 24*time.Hour + time.Second}, {"old", 25 * time.Hour}, {"old", 72 * time.Hour},
}

// addTrash puts 1-2 shards of the repository into .trash.
func (w *c32World) addTrash(id uint32, name string, forceFresh bool) error {
	n := 1 + w.r.IntN(2)
	pick := func() c32Age {
		for {
			a := c32Ages[w.r.IntN(len(c32Ages))]
			if !forceFresh || a.label != "old" {
				return a
			}
		}
	}
	a := pick()
	labels := map[string]bool{}
	for k := 0; k < n; k++ {
		if k > 0 && w.r.IntN(5) == 0 {
			a = pick()
		}
		labels[a.label] = true
		if err := w.addSimple(true, c32Base(name, k), id, name, w.now0.Add(-a.d), w.maybeSidecar(name)); err != nil {
			return err
		}
		w.feat["trash-"+a.label] = true
	}
	if len(labels) > 1 {
		w.feat["trash-mixed-age"] = true
	}
	if n > 1 {
		w.feat["trash-multi-shard"] = true
	}
	return nil
}

// buildCompound merges the members into one compound shard in the index dir and
// tombstones the members marked so.
func (w *c32World) buildCompound(members []c32Member) error {
	tmpd, err := os.MkdirTemp(w.scratch, "members-")
	if err != nil {
		return err
	}
	defer os.RemoveAll(tmpd)
	var files []index.IndexFile
	defer func() {
		for _, f := range files {
			f.Close()
		}
	}()
	docs := map[uint32][]string{}
	var desc []string
	for i, m := range members {
		p := filepath.Join(tmpd, fmt.Sprintf("m%d.zoekt", i))
		d, err := w.writeShard(p, m.id, m.name, m.variant)
		if err != nil {
			return err
		}
		docs[m.id] = d
		fh, err := os.Open(p)
		if err != nil {
			return err
		}
		inf, err := index.NewIndexFile(fh)
		if err != nil {
			return err
		}
		files = append(files, inf)
		desc = append(desc, fmt.Sprintf("%d:%s:tomb=%v", m.id, m.name, m.tomb))
	}
	tmpName, dstName, err := index.Merge(w.dir, files...)
	if err != nil {
		return err
	}
	if _, err := os.Stat(dstName); err == nil {
		// same set of member names as an earlier group (compound file names are a
		// hash of the member names): keep the earlier one only.
		return os.Remove(tmpName)
	}
	if err := os.Rename(tmpName, dstName); err != nil {
		return err
	}
	w.expDocs[c32HashFile(dstName)] = docs
	for _, m := range members {
		if m.tomb {
			if err := index.SetTombstone(dstName, m.id); err != nil {
				return err
			}
			w.feat["tombstoned-member"] = true
		}
	}
	mt := w.idxTime()
	_ = os.Chtimes(dstName, mt, mt)
	w.feat["compound"] = true
	w.note("index/%s compound members=%v", filepath.Base(dstName), desc)
	return nil
}

type c32KindW struct {
	k string
	w int
}

var c32Kinds = []c32KindW{
	{"simple", 18}, {"multi", 12}, {"compound", 20}, {"ctomb", 8}, {"tombtwo", 2},
	{"trash", 13}, {"trashidx", 6}, {"trashctomb", 6}, {"renamed", 7}, {"dup", 3}, {"absent", 5}, {"collide", 3},
}

func (w *c32World) pickKind(nComp int) string {
	tot := 0
	for _, k := range c32Kinds {
		tot += k.w
	}
	x := w.r.IntN(tot)
	kind := ""
	for _, k := range c32Kinds {
		if x < k.w {
			kind = k.k
			break
		}
		x -= k.w
	}
	if nComp == 0 {
		switch kind {
		case "compound", "tombtwo":
			kind = "simple"
		case "ctomb", "trashctomb":
			kind = "trash"
		case "dup":
			kind = "multi"
		}
	}
	return kind
}

func (w *c32World) generate() error {
	r := w.r
	nRepos := 2 + r.IntN(8)
	nComp := []int{0, 1, 1, 1, 2, 2}[r.IntN(6)]
	groups := make([][]c32Member, nComp)
	join := func(m c32Member) int {
		g := r.IntN(nComp)
		groups[g] = append(groups[g], m)
		return g
	}
	for i := 0; i < nRepos; i++ {
		id := w.newID()
		name := w.nameOf(id)
		kind := w.pickKind(nComp)
		repo := &c32Repo{ID: id, Name: name, Kind: kind}
		w.repos = append(w.repos, repo)
		w.feat["kind-"+kind] = true
		var err error
		switch kind {
		case "simple":
			err = w.addSimple(false, c32Base(name, 0), id, name, w.idxTime(), w.maybeSidecar(name))
		case "multi":
			n := 2 + r.IntN(2)
			for k := 0; k < n && err == nil; k++ {
				err = w.addSimple(false, c32Base(name, k), id, name, w.idxTime(), w.maybeSidecar(name))
			}
		case "compound":
			join(c32Member{id: id, name: name, variant: "member"})
		case "ctomb":
			join(c32Member{id: id, name: name, tomb: true, variant: "member"})
		case "tombtwo":
			// tombstoned in every compound shard, with different commit dates
			for g := range groups {
				groups[g] = append(groups[g], c32Member{id: id, name: name, tomb: true, variant: fmt.Sprintf("member%d", g)})
			}
		case "trash":
			err = w.addTrash(id, name, false)
		case "trashidx":
			if err = w.addTrash(id, name, false); err == nil {
				err = w.addSimple(false, c32Base(name, 0), id, name, w.idxTime(), w.maybeSidecar(name))
			}
		case "trashctomb":
			if err = w.addTrash(id, name, r.IntN(2) == 0); err == nil {
				join(c32Member{id: id, name: name, tomb: true, variant: "member"})
			}
		case "renamed":
			other := name + "-renamed"
			switch v := r.IntN(3); {
			case v == 0:
				// two shard files under the two names
				if err = w.addSimple(false, c32Base(name, 0), id, name, w.idxTime(), ""); err == nil {
					err = w.addSimple(false, c32Base(other, 0), id, other, w.idxTime(), w.maybeSidecar(other))
				}
				w.feat["renamed-two-files"] = true
			case v == 1 || nComp == 0:
				// multi-shard repository, one shard renamed through its sidecar only
				if err = w.addSimple(false, c32Base(name, 0), id, name, w.idxTime(), other); err == nil {
					err = w.addSimple(false, c32Base(name, 1), id, name, w.idxTime(), "")
				}
				w.feat["renamed-by-sidecar"] = true
			default:
				// old name inside a compound shard, new name as a simple shard
				join(c32Member{id: id, name: name, variant: "member"})
				err = w.addSimple(false, c32Base(other, 0), id, other, w.idxTime(), "")
				w.feat["renamed-compound-and-simple"] = true
			}
		case "dup":
			// alive both in a simple and in a compound shard (same name): the state
			// between a re-index and the tombstoning of the merged copy.
			join(c32Member{id: id, name: name, variant: "member"})
			err = w.addSimple(false, c32Base(name, 0), id, name, w.idxTime(), "")
		case "absent":
			// known to the assignment only
		case "collide":
			// two repository ids with one name: the older one sits in the trash
			// under the shard file name the newer one uses in the index.
			if err = w.addTrash(id, name, true); err == nil {
				id2 := w.newID()
				w.repos = append(w.repos, &c32Repo{ID: id2, Name: name, Kind: "collide-partner"})
				err = w.addSimple(false, c32Base(name, 0), id2, name, w.idxTime(), "")
			}
		}
		if err != nil {
			return err
		}
	}
	for _, g := range groups {
		if len(g) == 0 {
			continue
		}
		if err := w.buildCompound(g); err != nil {
			return err
		}
	}
	return w.addTmp()
}

func (w *c32World) addTmp() error {
	r := w.r
	if r.IntN(2) == 0 {
		return nil
	}
	names := []string{
		fmt.Sprintf("left%d_v16.00000.zoekt.%d.tmp", r.IntN(100), r.IntN(1e6)),
		fmt.Sprintf("compound-dead%d_v17.00000.zoekt.tmp", r.IntN(100)),
		fmt.Sprintf("x%d_v16.00000.zoekt.meta.%d.tmp", r.IntN(100), r.IntN(1e6)),
	}
	for _, n := range names {
		if r.IntN(2) == 0 {
			continue
		}
		p := filepath.Join(w.dir, n)
		if err := os.WriteFile(p, []byte("partial write"), 0o644); err != nil {
			return err
		}
		mt := w.now0.Add(-time.Duration(r.IntN(10*3600)) * time.Second)
		_ = os.Chtimes(p, mt, mt)
		w.feat["tmp-file"] = true
		w.note("index/%s leftover temp file", n)
	}
	if r.IntN(4) == 0 {
		n := fmt.Sprintf("build%d.tmp", r.IntN(100))
		if err := os.MkdirAll(filepath.Join(w.dir, n), 0o755); err != nil {
			return err
		}
		w.feat["tmp-dir"] = true
		w.note("index/%s/ directory named *.tmp", n)
	}
	return nil
}

// ---------------------------------------------------------------------------
// the oracle

type c32Finding struct{ sig, what string }

type c32Judgement struct {
	findings    []c32Finding
	ev          map[string]int
	keepObl     int // assigned repositories that had to stay / come back
	removeObl   int // unassigned repositories that had to leave the index
	trashJudged int // trash entries whose fate was judged
}

func c32HasFile(m map[string]*c32File, f *c32File) *c32File {
	if g := m[f.Base]; g != nil && g.Hash == f.Hash {
		return g
	}
	return nil
}

// c32NameConflict: does a shard with the file name of one of the trashed shards
// exist in the index (judged per repository, like age)?
func c32NameConflict(files []*c32File, B *c32Snap) bool {
	for _, f := range files {
		if B.Index[f.Base] != nil {
			return true
		}
	}
	return false
}

func c32OwnedByAssigned(f *c32File, assigned map[uint32]bool, except uint32) bool {
	for _, e := range f.Ents {
		if e.ID != except && assigned[e.ID] {
			return true
		}
	}
	return false
}

func c32AnyOld(files []*c32File, now time.Time) bool {
	minAge := now.Add(-24 * time.Hour)
	for _, f := range files {
		if f.MTime.Before(minAge) {
			return true
		}
	}
	return false
}

func c32Judge(B, A *c32Snap, assigned map[uint32]bool, now time.Time, merging bool) *c32Judgement {
	j := &c32Judgement{ev: map[string]int{}}
	add := func(sig, format string, a ...any) {
		j.findings = append(j.findings, c32Finding{sig, fmt.Sprintf(format, a...)})
	}

	// (1) assigned repositories stay searchable / come back from the trash.
	for _, id := range c32SortedIDs(assigned) {
		bf := B.aliveIdx[id]
		if len(bf) > 0 {
			if len(B.namesIdx[id]) > 1 {
				j.ev["assigned_with_inconsistent_names_exempt"]++
				continue
			}
			j.keepObl++
			ok := true
			for _, f := range bf {
				af := A.Index[f.Base]
				if af != nil && af.Hash == f.Hash && af.alive(id) {
					continue
				}
				ok = false
				fate := "deleted"
				switch {
				case af != nil && af.Hash == f.Hash:
					fate = "tombstoned"
				case af != nil:
					fate = "overwritten"
				case c32HasFile(A.Trash, f) != nil:
					fate = "trashed"
				}
				switch {
				case f.Compound:
					plain, dup, renamed := false, false, false
					for _, e := range f.Ents {
						switch {
						case e.Tomb || e.ID == id:
						case !assigned[e.ID] && len(B.aliveIdx[e.ID]) > 1:
							dup = true // the state between a re-index and the tombstoning of the merged copy
						case !assigned[e.ID]:
							plain = true
						case len(B.namesIdx[e.ID]) > 1:
							renamed = true
						}
					}
					cause := "unknown"
					switch {
					case dup && merging: // with shard merging a single compound copy would have been tombstoned
						cause = "unassigned co-resident that is also alive in another shard"
					case plain || dup:
						cause = "unassigned co-resident"
					case renamed:
						cause = "renamed co-resident"
					}
					add(fmt.Sprintf("assigned repo lost/compound shard %s/cause=%s/shardMerging=%v", fate, cause, merging),
						"assigned repository %d (%s) was alive in %s before cleanup; afterwards that shard is %s", id, c32AnyName(B.namesIdx[id]), f.Base, fate)
				case B.Trash[f.Base] != nil && B.Trash[f.Base].Hash != f.Hash && !B.Trash[f.Base].alive(id) && c32OwnedByAssigned(B.Trash[f.Base], assigned, id):
					// Two ASSIGNED repositories own the same shard file name (shards are named
					// after the repository name): the directory cannot hold both, so "keep the
					// indexed one" and "restore the trashed one" cannot both be honoured. The
					// property is not satisfiable for this input; it is not judged.
					j.ev["assigned_sharing_a_shard_file_name_with_an_assigned_trashed_repo_not_judged"]++
				case B.Trash[f.Base] != nil && B.Trash[f.Base].Hash != f.Hash && !B.Trash[f.Base].alive(id):
					add("assigned repo lost/shard file name shared with a trash entry of another repository",
						"assigned repository %d (%s): shard %s is %s after cleanup; .trash held a different shard with the same file name (%s)", id, c32AnyName(B.namesIdx[id]), f.Base, fate, B.Trash[f.Base].line(".trash", true))
				default:
					add(fmt.Sprintf("assigned repo lost/simple shard %s/shardMerging=%v", fate, merging),
						"assigned repository %d (%s) was alive in %s before cleanup; afterwards that shard is %s", id, c32AnyName(B.namesIdx[id]), f.Base, fate)
				}
			}
			if ok {
				j.ev["assigned_kept"]++
				if len(bf) > 1 {
					j.ev["assigned_kept_multi_shard"]++
				}
				if bf[0].Compound {
					j.ev["assigned_kept_in_compound"]++
				}
			}
			continue
		}
		tf := B.aliveTrash[id]
		if len(tf) == 0 {
			if len(B.tombIdx[id]) > 0 {
				if len(A.aliveIdx[id]) > 0 {
					j.ev["assigned_untombstoned"]++
				} else {
					j.ev["assigned_tombstone_left"]++
				}
			} else {
				j.ev["assigned_absent"]++
			}
			continue
		}
		if len(B.namesInTrash[id]) > 1 {
			j.ev["assigned_trash_with_inconsistent_names_exempt"]++
			continue
		}
		restored := 0
		for _, f := range tf {
			if g := c32HasFile(A.Index, f); g != nil && g.alive(id) {
				restored++
			}
		}
		if c32AnyOld(tf, now) {
			// both "restore" and "delete, it is older than 24 h" are licensed
			switch restored {
			case len(tf):
				j.ev["assigned_old_trash_restored"]++
			case 0:
				j.ev["assigned_old_trash_not_restored"]++
			default:
				add("assigned repo partially restored from old trash", "assigned repository %d: %d of %d trashed shards restored", id, restored, len(tf))
			}
			continue
		}
		if c32NameConflict(tf, B) {
			// a shard of another repository owns one of the file names in the index:
			// "restore" and "delete, it conflicts with an indexed copy" are both
			// licensed; leaving it in the trash or restoring a part is not.
			gone := 0
			for _, f := range tf {
				if c32HasFile(A.Index, f) == nil && c32HasFile(A.Trash, f) == nil {
					gone++
				}
			}
			if restored == 0 && gone == len(tf) {
				j.ev["assigned_trash_deleted_file_name_conflict"]++
				continue
			}
		}
		j.keepObl++
		if restored == len(tf) {
			j.ev["assigned_restored_from_trash"]++
			if len(tf) > 1 {
				j.ev["assigned_restored_multi_shard"]++
			}
			if len(B.tombIdx[id]) > 0 {
				j.ev["assigned_restored_although_tombstoned"]++
			}
			continue
		}
		ctx := "plain"
		for _, f := range tf {
			if B.Index[f.Base] != nil && !B.Index[f.Base].alive(id) {
				ctx = "shard file name shared with an indexed shard of another repository"
			}
		}
		if ctx == "plain" && len(B.tombIdx[id]) > 0 {
			ctx = "tombstoned in a compound shard"
		}
		var fates []string
		for _, f := range tf {
			switch {
			case c32HasFile(A.Index, f) != nil:
				fates = append(fates, f.Base+": in index")
			case c32HasFile(A.Trash, f) != nil:
				fates = append(fates, f.Base+": still in .trash")
			default:
				fates = append(fates, f.Base+": deleted")
			}
		}
		add("assigned repo not restored from trash/"+ctx,
			"assigned repository %d (%s) was only in .trash (all shards younger than 24 h) before cleanup and is not fully searchable afterwards: %s", id, c32AnyName(B.namesInTrash[id]), strings.Join(fates, ", "))
	}

	// (2) no unassigned repository stays alive in the searchable index.
	for _, id := range c32SortedIDs(B.aliveIdx) {
		if !assigned[id] {
			j.removeObl++
		}
	}
	for _, id := range c32SortedIDs(A.aliveIdx) {
		if assigned[id] {
			continue
		}
		f := A.aliveIdx[id][0]
		kind := "simple"
		if f.Compound {
			kind = "compound"
		}
		origin := "left in index"
		if len(B.aliveIdx[id]) == 0 {
			origin = "brought into index"
		}
		add(fmt.Sprintf("unassigned repo still searchable/%s/%s shard/shardMerging=%v", origin, kind, merging),
			"repository %d is not assigned but alive in %s after cleanup", id, f.Base)
	}
	for _, id := range c32SortedIDs(B.aliveIdx) {
		if assigned[id] || len(A.aliveIdx[id]) > 0 {
			continue
		}
		tomb, trashed := false, false
		for _, f := range B.aliveIdx[id] {
			if g := c32HasFile(A.Index, f); g != nil && g.tomb(id) {
				tomb = true
			}
			if c32HasFile(A.Trash, f) != nil {
				trashed = true
			}
		}
		switch {
		case len(B.namesIdx[id]) > 1:
			j.ev["unassigned_inconsistent_names_removed"]++
		case tomb:
			j.ev["unassigned_tombstoned_in_compound"]++
		case trashed:
			j.ev["unassigned_moved_to_trash"]++
			if len(B.aliveIdx[id]) > 1 {
				j.ev["unassigned_moved_to_trash_multi_shard"]++
			}
		default:
			j.ev["unassigned_deleted_outright"]++
		}
	}
	for _, id := range c32SortedIDs(B.namesIdx) {
		if assigned[id] && len(B.namesIdx[id]) > 1 && len(A.aliveIdx[id]) == 0 {
			j.ev["assigned_inconsistent_names_removed"]++
		}
	}

	// (3) trash entries are deleted for good only when old or conflicting.
	for _, id := range c32SortedIDs(B.aliveTrash) {
		tf := B.aliveTrash[id]
		old := c32AnyOld(tf, now)
		for _, f := range tf {
			j.trashJudged++
			if c32HasFile(A.Trash, f) != nil {
				j.ev["trash_entry_kept"]++
				if f.MTime.After(now) && A.Trash[f.Base].MTime.Equal(now) {
					j.ev["trash_future_mtime_reset_to_now"]++
				}
				continue
			}
			if c32HasFile(A.Index, f) != nil {
				j.ev["trash_entry_moved_to_index"]++
				continue
			}
			switch {
			case len(B.aliveIdx[id]) > 0:
				j.ev["trash_entry_deleted_conflict_with_index"]++
			case old:
				j.ev["trash_entry_deleted_older_than_24h"]++
			case c32NameConflict(tf, B):
				// same shard file name in the index (another id): counted as a
				// conflict with an indexed copy, the statement does not say by what
				// a conflict is recognised.
				j.ev["trash_entry_deleted_file_name_conflict"]++
			default:
				who := "unassigned"
				if assigned[id] {
					who = "assigned"
				}
				add("trash entry younger than 24h permanently deleted/"+who,
					"trash entry %s of repository %d (mtime %s, now %s, age %s) is gone from .trash and index although no indexed copy existed", f.Base, id,
					f.MTime.UTC().Format(time.RFC3339), now.UTC().Format(time.RFC3339), now.Sub(f.MTime))
			}
		}
	}

	// compound shards that disappeared as a whole
	for _, b := range c32SortedBases(B.Index) {
		if f := B.Index[b]; f.Compound && A.Index[b] == nil {
			j.ev["compound_shard_removed_whole"]++
		}
	}
	// temp files (no requirement in the statement; observed only)
	after := map[string]bool{}
	for _, n := range A.Other {
		after[n] = true
	}
	for _, n := range B.Other {
		switch {
		case strings.HasSuffix(n, ".tmp") && !after[n]:
			j.ev["tmp_file_removed"]++
		case strings.HasSuffix(n, ".tmp/") && after[n]:
			j.ev["tmp_dir_left"]++
		case !after[n]:
			j.ev["other_entry_removed"]++
		}
	}
	return j
}

func c32AnyName(m map[string]bool) string {
	var l []string
	for n := range m {
		l = append(l, n)
	}
	sort.Strings(l)
	return strings.Join(l, "|")
}

// c32SearchShards opens every shard of the index dir through the production
// reader and checks that alive repositories return exactly the documents that
// were written, and tombstoned ones none.
func (w *c32World) searchShards(A *c32Snap) []c32Finding {
	var out []c32Finding
	q := &query.Substring{Pattern: c32Marker, Content: true}
	for _, b := range c32SortedBases(A.Index) {
		f := A.Index[b]
		if f.Err != "" {
			out = append(out, c32Finding{"index shard unreadable after cleanup", f.Base + ": " + f.Err})
			continue
		}
		exp, ok := w.expDocs[f.Hash]
		if !ok {
			out = append(out, c32Finding{"harness/unknown shard content", f.line("index", false)})
			continue
		}
		fh, err := os.Open(filepath.Join(w.dir, b))
		if err != nil {
			out = append(out, c32Finding{"harness/open", err.Error()})
			continue
		}
		inf, err := index.NewIndexFile(fh)
		if err != nil {
			out = append(out, c32Finding{"index shard unreadable after cleanup", f.Base + ": " + err.Error()})
			continue
		}
		s, err := index.NewSearcher(inf)
		if err != nil {
			inf.Close()
			out = append(out, c32Finding{"index shard unreadable after cleanup", f.Base + ": " + err.Error()})
			continue
		}
		res, err := s.Search(context.Background(), q, &zoekt.SearchOptions{})
		if err != nil {
			s.Close()
			out = append(out, c32Finding{"search error after cleanup", f.Base + ": " + err.Error()})
			continue
		}
		got := map[uint32][]string{}
		for _, fm := range res.Files {
			got[fm.RepositoryID] = append(got[fm.RepositoryID], fm.FileName)
		}
		s.Close()
		for _, e := range f.Ents {
			g := got[e.ID]
			sort.Strings(g)
			switch {
			case e.Tomb && len(g) > 0:
				out = append(out, c32Finding{"tombstoned repo returns documents", fmt.Sprintf("%s: repository %d is tombstoned but search returned %v", f.Base, e.ID, g)})
			case !e.Tomb && strings.Join(g, "\x00") != strings.Join(exp[e.ID], "\x00"):
				out = append(out, c32Finding{"alive repo does not return its documents", fmt.Sprintf("%s: repository %d: want %v got %v", f.Base, e.ID, exp[e.ID], g)})
			}
		}
	}
	return out
}

// c32SearchDir loads the directory with the production directory searcher and
// compares the (repository id, file) multiset with what the shard metadata says
// is alive.
func (w *c32World) searchDir(A *c32Snap) []c32Finding {
	want := map[string]int{}
	for _, b := range c32SortedBases(A.Index) {
		f := A.Index[b]
		for _, e := range f.Ents {
			if e.Tomb {
				continue
			}
			for _, d := range w.expDocs[f.Hash][e.ID] {
				want[fmt.Sprintf("%d %s", e.ID, d)]++
			}
		}
	}
	ds, err := search.NewDirectorySearcher(w.dir)
	if err != nil {
		return []c32Finding{{"directory searcher failed after cleanup", err.Error()}}
	}
	defer ds.Close()
	res, err := ds.Search(context.Background(), &query.Substring{Pattern: c32Marker, Content: true}, &zoekt.SearchOptions{})
	if err != nil {
		return []c32Finding{{"search error after cleanup", "directory searcher: " + err.Error()}}
	}
	got := map[string]int{}
	for _, fm := range res.Files {
		got[fmt.Sprintf("%d %s", fm.RepositoryID, fm.FileName)]++
	}
	var diff []string
	for k, n := range want {
		if got[k] != n {
			diff = append(diff, fmt.Sprintf("%s want %d got %d", k, n, got[k]))
		}
	}
	for k, n := range got {
		if want[k] == 0 {
			diff = append(diff, fmt.Sprintf("%s want 0 got %d", k, n))
		}
	}
	if len(diff) > 0 {
		sort.Strings(diff)
		return []c32Finding{{"directory searcher disagrees with alive shard metadata", strings.Join(diff, "; ")}}
	}
	return nil
}

// ---------------------------------------------------------------------------
// driver

func c32Quiet() func() {
	oi, oe, od := infoLog.Writer(), errorLog.Writer(), debugLog.Writer()
	ol := log.Writer()
	infoLog.SetOutput(io.Discard)
	errorLog.SetOutput(io.Discard)
	debugLog.SetOutput(io.Discard)
	log.SetOutput(io.Discard)
	return func() {
		infoLog.SetOutput(oi)
		errorLog.SetOutput(oe)
		debugLog.SetOutput(od)
		log.SetOutput(ol)
	}
}

func TestVerif_C32(t *testing.T) {
	rec := kit.Open("C32")
	defer rec.Done()
	defer c32Quiet()()
	n := rec.N(300, 4000)
	// the repository identities of this run (shard images are cached per identity)
	pr := rec.Rand(32)
	c32ImageRnd = rec.Rand(33)
	var pool []c32Repo
	seen := map[uint32]bool{}
	for len(pool) < 32 {
		id := uint32(1 + pr.IntN(4000))
		if seen[id] {
			continue
		}
		seen[id] = true
		name := fmt.Sprintf("r%d", id)
		if pr.IntN(3) == 0 {
			name = fmt.Sprintf("gh.example.com/org%d/r%d", pr.IntN(3), id)
		}
		pool = append(pool, c32Repo{ID: id, Name: name})
	}
	for ci := 0; ci < n; ci++ {
		c32Case(rec, ci, pool)
	}
	rec.Count("shard_images_built", int64(len(c32Images)))
}

var c32Steps = []time.Duration{0, time.Minute, time.Hour, 6 * time.Hour, 23 * time.Hour, 24 * time.Hour, 24*time.Hour + time.Second, 25 * time.Hour, 49 * time.Hour}

func c32Case(rec *kit.Rec, ci int, pool []c32Repo) {
	r := rec.Rand(uint64(3200000 + ci))
	dir := filepath.Join(rec.Work, fmt.Sprintf("c%06d", ci))
	w := &c32World{r: r, pool: pool, dir: filepath.Join(dir, "index"), scratch: filepath.Join(dir, "scratch"),
		feat: map[string]bool{}, expDocs: map[string]map[uint32][]string{}, usedIDs: map[uint32]bool{}}
	w.trash = filepath.Join(w.dir, ".trash")
	w.now0 = time.Date(2024, 5, 1, 12, 0, 0, 0, time.UTC).Add(time.Duration(r.IntN(1e6)) * time.Second)
	defer os.RemoveAll(dir)
	for _, d := range []string{w.dir, w.scratch} {
		if err := os.MkdirAll(d, 0o755); err != nil {
			rec.Violation("harness/build", err.Error(), nil)
			return
		}
	}
	if r.IntN(6) != 0 {
		_ = os.MkdirAll(w.trash, 0o755)
	}
	if err := w.generate(); err != nil {
		rec.Violation("harness/build", err.Error(), map[string]any{"case": ci, "recipe": w.recipe})
		return
	}
	merging := r.IntN(2) == 0
	rounds := 1 + r.IntN(4)

	// the assignment
	p := []float64{0, .25, .25, .5, .5, .5, .5, .75, .75, .75, 1}[r.IntN(11)]
	assigned := map[uint32]bool{}
	for _, rp := range w.repos {
		if r.Float64() < p || (rp.Kind == "absent" && r.IntN(2) == 0) {
			assigned[rp.ID] = true
		}
	}
	for k := r.IntN(3); k > 0; k-- {
		assigned[uint32(100000+r.IntN(1000))] = true // never seen by this server
	}
	var feats []string
	for f := range w.feat {
		feats = append(feats, f)
		rec.Count("dirs_with_"+f, 1)
		rec.Seen("dir_features", f)
	}
	sort.Strings(feats)
	rec.Count("dirs", 1)
	if merging {
		rec.Count("dirs_shard_merging_on", 1)
	} else {
		rec.Count("dirs_shard_merging_off", 1)
	}

	now := w.now0
	var history []any
	var last *c32Snap // snapshot after the previous round, valid while the directory was not touched
	for k := 0; k < rounds; k++ {
		if k > 0 {
			now = now.Add(c32Steps[r.IntN(len(c32Steps))])
			for _, rp := range w.repos {
				if r.IntN(3) == 0 {
					if assigned[rp.ID] {
						delete(assigned, rp.ID)
					} else {
						assigned[rp.ID] = true
					}
				}
			}
			// the indexer may have produced a fresh shard for a repository in between
			if r.IntN(5) == 0 {
				rp := w.repos[r.IntN(len(w.repos))]
				base := c32Base(rp.Name, 0)
				w.generation = fmt.Sprintf("round%d", k)
				if _, err := os.Stat(filepath.Join(w.dir, base)); err != nil && last != nil && len(last.aliveIdx[rp.ID]) == 0 {
					if err := w.addSimple(false, base, rp.ID, rp.Name, now, ""); err == nil {
						rec.Count("reindexed_between_rounds", 1)
					}
					last = nil
				}
			}
			if r.IntN(4) == 0 {
				_ = w.addTmp()
				last = nil
			}
		}
		ids := c32SortedIDs(assigned)
		r.Shuffle(len(ids), func(i, j int) { ids[i], ids[j] = ids[j], ids[i] })

		B := last
		if B == nil {
			B = c32TakeSnap(w.dir)
		}
		msg, stack, panicked := kit.Guard(func() { cleanup(w.dir, ids, now, merging) })
		A := c32TakeSnap(w.dir)
		step := map[string]any{"round": k, "now": now.UTC().Format(time.RFC3339Nano), "assigned": c32SortedIDs(assigned), "shardMerging": merging,
			"before": B.listing(), "after": A.listing()}
		history = append(history, step)
		witness := func() any {
			return map[string]any{"case": ci, "now0": w.now0.UTC().Format(time.RFC3339Nano), "recipe": w.recipe, "rounds": history,
				"replay": "build the directory from recipe (mtimes relative to now0), then call cleanup(dir, assigned, now, shardMerging) per round"}
		}
		if panicked {
			rec.Violation("panic/"+kit.PanicSite(stack)+"/"+kit.MsgClass(msg), msg+"\n"+stack, witness())
			return
		}
		j := c32Judge(B, A, assigned, now, merging)
		findings := j.findings
		findings = append(findings, w.searchShards(A)...)
		if len(findings) == 0 {
			// (4) a second identical cleanup (same assignment, same now) is judged by
			// the same clauses and must change nothing.
			_, _, _ = kit.Guard(func() { cleanup(w.dir, ids, now, merging) })
			A2 := c32TakeSnap(w.dir)
			l1, l2 := A.listing(), A2.listing()
			j2 := c32Judge(A, A2, assigned, now, merging)
			findings = append(findings, j2.findings...)
			if strings.Join(l1, "\n") != strings.Join(l2, "\n") {
				step["after_second_identical_cleanup"] = l2
				if ok, renamed := c32OnlyAssignedUntombstoned(B, A, A2, assigned); ok && renamed {
					rec.Count("second_cleanup_untombstones_renamed_assigned_repo", 1)
				} else if ok {
					rec.Count("second_cleanup_untombstones_assigned_repo", 1)
				} else if len(j2.findings) == 0 {
					findings = append(findings, c32Finding{"second identical cleanup changes the directory", c32Diff(l1, l2)})
				}
			} else {
				rec.Count("idempotence_checked", 1)
			}
			A = A2
		}
		last = A
		if len(findings) == 0 && k == rounds-1 {
			findings = append(findings, w.searchDir(A)...)
			rec.Count("directory_searcher_checked", 1)
		}
		var evs []string
		for e, n := range j.ev {
			rec.Count("ev_"+e, int64(n))
			rec.Seen("events", e)
			evs = append(evs, e)
		}
		sort.Strings(evs)
		rec.Count("rounds", 1)
		rec.Max("max_rounds_per_dir", int64(k+1))
		rec.Max("max_shard_files_in_dir", int64(len(B.Index)+len(B.Trash)))
		nontrivial := j.keepObl > 0 && (j.removeObl > 0 || j.trashJudged > 0)
		key := fmt.Sprintf("m=%v|ev=%s|feat=%s", merging, strings.Join(evs, ","), strings.Join(feats, ","))
		rec.Case(key, nontrivial, func() any {
			return map[string]any{"case": ci, "round": k, "shardMerging": merging, "events": j.ev, "dir_features": feats,
				"assigned": c32SortedIDs(assigned), "before": B.listing(), "after": A.listing()}
		})
		for _, f := range findings {
			rec.Violation(f.sig, f.what, witness())
		}
		if len(findings) > 0 {
			return // later rounds would only repeat the consequences
		}
	}
}

// c32OnlyAssignedUntombstoned reports whether the only difference between A and A2
// is that assigned repositories went from tombstoned to alive in a compound shard
// (the statement puts no obligation on tombstone-only repositories, so cleanup
// may resurrect them whenever it likes). renamed says whether all of them were
// repositories whose shards disagreed on the name in B.
func c32OnlyAssignedUntombstoned(B, A, A2 *c32Snap, assigned map[uint32]bool) (ok, renamed bool) {
	renamed = true
	if len(A.Index) != len(A2.Index) {
		return false, false
	}
	patched := &c32Snap{Index: map[string]*c32File{}, Trash: A2.Trash, Other: A2.Other, TrashOther: A2.TrashOther}
	for b, f2 := range A2.Index {
		f1 := A.Index[b]
		if f1 == nil || len(f1.Ents) != len(f2.Ents) {
			return false, false
		}
		g := *f2
		g.Ents = append([]c32Ent(nil), f2.Ents...)
		for i := range g.Ents {
			e1 := f1.Ents[i]
			if e1.ID == g.Ents[i].ID && e1.Tomb && !g.Ents[i].Tomb && assigned[e1.ID] {
				g.Ents[i].Tomb = true
				g.Meta = f1.Meta
				if len(B.namesIdx[e1.ID]) < 2 {
					renamed = false
				}
			}
		}
		patched.Index[b] = &g
	}
	return strings.Join(A.listing(), "\n") == strings.Join(patched.listing(), "\n"), renamed
}

func c32Diff(a, b []string) string {
	am, bm := map[string]bool{}, map[string]bool{}
	for _, x := range a {
		am[x] = true
	}
	for _, x := range b {
		bm[x] = true
	}
	var out []string
	for _, x := range a {
		if !bm[x] {
			out = append(out, "- "+x)
		}
	}
	for _, x := range b {
		if !am[x] {
			out = append(out, "+ "+x)
		}
	}
	return strings.Join(out, "\n")
}
