package main

// C32: cleanup never loses an assigned repository.
//
// Runtime monitor: random index directories are built from real shards (simple,
// multi-shard, compound, sidecars, tombstones, .trash with old / fresh / future
// mtimes, renamed repositories, repositories of different ids sharing one name,
// *.tmp leftovers, orphaned sidecars); repository names are drawn so that simple
// shard files sort before and after the compound-* files. The production
// cleanup() is run for 1-8 rounds with an explicit, advancing `now`; between the
// rounds the assignment changes and an "indexer" acts on the directory the way
// the indexserver does (indexes assigned repositories that are not searchable,
// metadata-only updates that leave a .meta sidecar, a new repository id taking
// over the name of an old one). The directory is snapshotted before and after
// every round and the four clauses of the property statement are judged on the
// two snapshots. Nothing is predicted: the oracle only states which transitions
// the statement forbids. The harness knows which repository every shard file was
// built for (by content hash) and when cleanup moved a file into the trash; both
// are used as ground truth next to what the shard metadata claims.

import (
	"bytes"
	"context"
	"crypto/sha1"
	"encoding/hex"
	"fmt"
	"hash/fnv"
	"io"
	"log"
	"math/rand/v2"
	"net/url"
	"os"
	"path/filepath"
	"sort"
	"strings"
	"sync"
	"testing"
	"time"

	"github.com/sourcegraph/zoekt"
	"github.com/sourcegraph/zoekt/index"
	kit "github.com/sourcegraph/zoekt/internal/verifkit"
	"github.com/sourcegraph/zoekt/query"
	"github.com/sourcegraph/zoekt/search"
)

const (
	c32Marker  = "ctwoneedle"
	c32Workers = 8 // directories are independent; the verdict of a case never depends on the schedule
)

// ---------------------------------------------------------------------------
// snapshot of an index directory

type c32Ent struct {
	ID   uint32
	Name string
	Tomb bool
}

type c32File struct {
	Base     string
	Hash     string
	Meta     string // content of the .meta sidecar ("" = none)
	MTime    time.Time
	Born     time.Time // ground truth: when cleanup was seen moving this file into .trash (zero = not observed)
	Ents     []c32Ent  // what the shard metadata (shard + sidecar) says
	Content  []uint32  // ground truth: the repository ids this file was built for (nil = unknown content)
	Compound bool
	Err      string
}

func (f *c32File) alive(id uint32) bool {
	for _, e := range f.Ents {
		if e.ID == id && !e.Tomb {
			return true
		}
	}
	return false
}

func (f *c32File) tomb(id uint32) bool {
	for _, e := range f.Ents {
		if e.ID == id && e.Tomb {
			return true
		}
	}
	return false
}

func (f *c32File) holds(id uint32) bool {
	for _, c := range f.Content {
		if c == id {
			return true
		}
	}
	return false
}

// since is the time the age of a trash entry is counted from: the moment cleanup
// put it into the trash where the harness saw that, else the file's mtime.
func (f *c32File) since() time.Time {
	if !f.Born.IsZero() {
		return f.Born
	}
	return f.MTime
}

// mislabelled: the metadata names other repository ids than the content was built for.
func (f *c32File) mislabelled() bool {
	if f.Content == nil || f.Err != "" {
		return false
	}
	if len(f.Content) != len(f.Ents) {
		return true
	}
	for _, e := range f.Ents {
		if !f.holds(e.ID) {
			return true
		}
	}
	return false
}

type c32Snap struct {
	Index, Trash           map[string]*c32File
	Other, TrashOther      []string // every other directory entry (dirs end in "/")
	aliveIdx, aliveTrash   map[uint32][]*c32File
	tombIdx                map[uint32][]*c32File
	hiddenTrash            map[uint32][]*c32File // trashed files built for the id whose metadata does not show the id alive
	namesIdx, namesInTrash map[uint32]map[string]bool
}

func c32HashBytes(b []byte) string {
	h := sha1.Sum(b)
	return hex.EncodeToString(h[:6])
}

func c32HashFile(p string) string {
	b, err := os.ReadFile(p)
	if err != nil {
		return "unreadable:" + err.Error()
	}
	return c32HashBytes(b)
}

func c32BornKey(f *c32File) string { return f.Base + "#" + f.Hash }

// What index.ReadMetadataPath returns is a function of the bytes of the shard and
// of its sidecar only; it is asked once per distinct pair and run.
type c32MetaRead struct {
	ents []c32Ent
	err  string
}

var (
	c32MetaMu    sync.Mutex
	c32MetaReads = map[string]*c32MetaRead{}
)

func c32ReadMeta(p, hash, meta string) *c32MetaRead {
	key := hash + "\x00" + meta
	c32MetaMu.Lock()
	m := c32MetaReads[key]
	c32MetaMu.Unlock()
	if m != nil {
		return m
	}
	m = &c32MetaRead{}
	repos, _, err := index.ReadMetadataPath(p)
	if err != nil {
		m.err = err.Error()
	}
	for _, r := range repos {
		m.ents = append(m.ents, c32Ent{ID: r.ID, Name: r.Name, Tomb: r.Tombstone})
	}
	if !strings.HasPrefix(hash, "unreadable:") {
		c32MetaMu.Lock()
		c32MetaReads[key] = m
		c32MetaMu.Unlock()
	}
	return m
}

func c32ReadDir(dir string, truth map[string]map[uint32][]string, born map[string]time.Time) (map[string]*c32File, []string) {
	files := map[string]*c32File{}
	var other []string
	ents, err := os.ReadDir(dir)
	if err != nil {
		return files, other
	}
	names := map[string]bool{}
	for _, e := range ents {
		names[e.Name()] = true
	}
	for _, e := range ents {
		n := e.Name()
		p := filepath.Join(dir, n)
		if e.IsDir() {
			if n != ".trash" {
				other = append(other, n+"/")
			}
			continue
		}
		if strings.HasSuffix(n, ".zoekt") {
			f := &c32File{Base: n, Hash: c32HashFile(p), Compound: strings.HasPrefix(n, "compound-")}
			if fi, err := os.Stat(p); err == nil {
				f.MTime = fi.ModTime()
			}
			if b, err := os.ReadFile(p + ".meta"); err == nil {
				f.Meta = string(b)
			}
			m := c32ReadMeta(p, f.Hash, f.Meta)
			f.Ents, f.Err = m.ents, m.err
			if t, ok := truth[f.Hash]; ok {
				f.Content = c32SortedIDs(t)
			}
			if born != nil {
				f.Born = born[c32BornKey(f)]
			}
			files[n] = f
			continue
		}
		if strings.HasSuffix(n, ".zoekt.meta") && names[strings.TrimSuffix(n, ".meta")] {
			continue // sidecar, recorded with its shard
		}
		other = append(other, n)
	}
	sort.Strings(other)
	return files, other
}

func c32TakeSnap(dir string, truth map[string]map[uint32][]string, born map[string]time.Time) *c32Snap {
	s := &c32Snap{aliveIdx: map[uint32][]*c32File{}, aliveTrash: map[uint32][]*c32File{}, tombIdx: map[uint32][]*c32File{},
		hiddenTrash: map[uint32][]*c32File{}, namesIdx: map[uint32]map[string]bool{}, namesInTrash: map[uint32]map[string]bool{}}
	s.Index, s.Other = c32ReadDir(dir, truth, nil)
	s.Trash, s.TrashOther = c32ReadDir(filepath.Join(dir, ".trash"), truth, born)
	add := func(m map[uint32]map[string]bool, id uint32, n string) {
		if m[id] == nil {
			m[id] = map[string]bool{}
		}
		m[id][n] = true
	}
	for _, b := range c32SortedBases(s.Index) {
		f := s.Index[b]
		for _, e := range f.Ents {
			if e.Tomb {
				s.tombIdx[e.ID] = append(s.tombIdx[e.ID], f)
			} else {
				s.aliveIdx[e.ID] = append(s.aliveIdx[e.ID], f)
				add(s.namesIdx, e.ID, e.Name)
			}
		}
	}
	for _, b := range c32SortedBases(s.Trash) {
		f := s.Trash[b]
		for _, e := range f.Ents {
			if !e.Tomb {
				s.aliveTrash[e.ID] = append(s.aliveTrash[e.ID], f)
				add(s.namesInTrash, e.ID, e.Name)
			}
		}
		for _, id := range f.Content {
			if !f.alive(id) {
				s.hiddenTrash[id] = append(s.hiddenTrash[id], f)
			}
		}
	}
	return s
}

func c32SortedBases(m map[string]*c32File) []string {
	var l []string
	for b := range m {
		l = append(l, b)
	}
	sort.Strings(l)
	return l
}

func c32SortedIDs[T any](m map[uint32]T) []uint32 {
	var l []uint32
	for id := range m {
		l = append(l, id)
	}
	sort.Slice(l, func(i, j int) bool { return l[i] < l[j] })
	return l
}

func (f *c32File) line(where string, withTime bool) string {
	var es []string
	for _, e := range f.Ents {
		st := "alive"
		if e.Tomb {
			st = "TOMBSTONED"
		}
		es = append(es, fmt.Sprintf("%d:%s:%s", e.ID, e.Name, st))
	}
	s := fmt.Sprintf("%s/%s #%s [%s]", where, f.Base, f.Hash, strings.Join(es, " "))
	if f.Meta != "" {
		h := sha1.Sum([]byte(f.Meta))
		s += " +meta#" + hex.EncodeToString(h[:4])
	}
	if f.mislabelled() {
		s += fmt.Sprintf(" BUILT-FOR=%v", f.Content)
	}
	if withTime {
		s += " mtime=" + f.MTime.UTC().Format("2006-01-02T15:04:05.000000000Z")
		if !f.Born.IsZero() && !f.Born.Equal(f.MTime) {
			s += " trashed_at=" + f.Born.UTC().Format("2006-01-02T15:04:05.000000000Z")
		}
	}
	if f.Err != "" {
		s += " ERR=" + f.Err
	}
	return s
}

// listing renders the snapshot for witnesses and for the idempotence comparison.
// Index mtimes are not part of the state (cleanup never looks at them).
func (s *c32Snap) listing() []string {
	var out []string
	for _, b := range c32SortedBases(s.Index) {
		out = append(out, s.Index[b].line("index", false))
	}
	for _, n := range s.Other {
		out = append(out, "index/"+n+" (other)")
	}
	for _, b := range c32SortedBases(s.Trash) {
		out = append(out, s.Trash[b].line(".trash", true))
	}
	for _, n := range s.TrashOther {
		out = append(out, ".trash/"+n+" (other)")
	}
	return out
}

// ---------------------------------------------------------------------------
// repository identities of a run

// c32Ident is one repository known to the (simulated) frontend. Twin is the id of
// another identity carrying the same Name (a repository deleted and re-created,
// or renamed onto a name that was in use before); Alt is the name the repository
// gets when a case renames it.
type c32Ident struct {
	ID   uint32
	Name string
	Alt  string
	Twin uint32
}

// c32CompoundPrefixedNames adds repository names that start with "compound-" to
// the name classes. cleanup recognises compound shards by that file name prefix,
// so the simple shards of such a repository are handled as compound shards: the
// only way for a simple shard to sort between two compound shards. Off: with it
// on, every run raises "index shard unreadable after cleanup" (shardMerging=true,
// such a repository unassigned: maybeSetTombstone writes the format-17 sidecar, a
// JSON array, next to a format-16 shard, which parseMetadata then rejects). That
// is genuine, but it is the one and only consequence of such names and needs a
// known-finding entry (lead's decision) before the class can be switched on.
const c32CompoundPrefixedNames = false

// c32GenName draws a repository name. Shard files are named after the escaped
// repository name, cleanup processes the files of a repository in file-name
// order, and compound shards are called compound-<sha1>: half of the names sort
// before "compound-", half after, some right at the boundary.
func c32GenName(r *rand.Rand, id uint32) string {
	if c32CompoundPrefixedNames && r.IntN(8) == 0 {
		return fmt.Sprintf("compound-%xr%d", r.IntN(16), id) // sorts between the compound shards
	}
	switch r.IntN(14) {
	case 0:
		return fmt.Sprintf("0x%d", id)
	case 1:
		return fmt.Sprintf("3rd-party/r%d", id)
	case 2:
		return fmt.Sprintf("Acme/r%d", id)
	case 3:
		return fmt.Sprintf("a%d", id)
	case 4:
		return fmt.Sprintf("b.example.com/team/r%d", id)
	case 5:
		return fmt.Sprintf("cod/r%d", id)
	case 6:
		return fmt.Sprintf("compoun%d", id) // "compoun7_v16…" < "compound-…"
	case 7:
		return fmt.Sprintf("compound%d", id) // "compound7_v16…" > "compound-…"
	case 8:
		return fmt.Sprintf("compound_%d", id)
	case 9:
		return fmt.Sprintf("gh.example.com/org%d/r%d", r.IntN(3), id)
	case 10:
		return fmt.Sprintf("zz/r%d", id)
	default:
		return fmt.Sprintf("r%d", id)
	}
}

func c32MakePool(pr *rand.Rand) []c32Ident {
	var pool []c32Ident
	seen := map[uint32]bool{}
	newID := func() uint32 {
		for {
			id := uint32(1 + pr.IntN(4000))
			if !seen[id] {
				seen[id] = true
				return id
			}
		}
	}
	for len(pool) < 36 {
		id := newID()
		a := c32Ident{ID: id, Name: c32GenName(pr, id)}
		a.Alt = c32GenName(pr, id) + "-renamed"
		if len(pool) < 24 {
			// a second id under the same name
			id2 := newID()
			b := c32Ident{ID: id2, Name: a.Name, Alt: c32GenName(pr, id2) + "-renamed", Twin: id}
			a.Twin = id2
			pool = append(pool, a, b)
			continue
		}
		pool = append(pool, a)
	}
	return pool
}

// ---------------------------------------------------------------------------
// shard images
//
// Building a ShardBuilder allocates ~32 MB, so shard images are built once per
// (repository id, name, version) and run, and written out wherever a case needs
// them; merged compound shards are cached per ordered member list. The image is
// a pure function of its key; files never are shared between cases.

type c32Image struct {
	once sync.Once
	err  error
	data []byte
	hash string
	docs []string
}

type c32CompoundImage struct {
	once sync.Once
	err  error
	data []byte
	hash string
	base string
	docs map[uint32][]string
}

var (
	c32ImgMu     sync.Mutex
	c32Images    = map[string]*c32Image{}
	c32Compounds = map[string]*c32CompoundImage{}
)

var c32Epoch = time.Date(2024, 1, 1, 0, 0, 0, 0, time.UTC)

func c32ImageKey(id uint32, name string, ver int) string {
	return fmt.Sprintf("%d|%s|v%d", id, name, ver)
}

// c32VerPlaceholder is the branch version ("commit") written into the base image
// of a repository. The images of the other versions of the same repository are
// copies of the base image with these bytes replaced (same length, so every
// offset in the shard stays valid; the repository metadata is not indexed and
// shards carry no checksum): the same content indexed at another commit.
const c32VerPlaceholder = "c32commit-000000000000"

func c32BaseImage(id uint32, name string, variant int) (*c32Image, error) {
	key := fmt.Sprintf("%d|%s|base%d", id, name, variant)
	c32ImgMu.Lock()
	im := c32Images[key]
	if im == nil {
		im = &c32Image{}
		c32Images[key] = im
	}
	c32ImgMu.Unlock()
	im.once.Do(func() {
		hh := fnv.New64a()
		hh.Write([]byte(key))
		h := hh.Sum64()
		tag := fmt.Sprintf("%06x", h&0xffffff)
		repo := &zoekt.Repository{
			ID: id, Name: name,
			Branches:         []zoekt.RepositoryBranch{{Name: "HEAD", Version: c32VerPlaceholder}},
			LatestCommitDate: c32Epoch.Add(-time.Duration((h>>24)%5000) * time.Hour),
			RawConfig:        map[string]string{"public": "1"},
		}
		b, err := index.NewShardBuilder(repo)
		if err != nil {
			im.err = err
			return
		}
		nd := 1 + int((h>>40)%3)
		for k := 0; k < nd; k++ {
			dn := fmt.Sprintf("s%s/doc%d.txt", tag, k)
			content := fmt.Sprintf("%s repo %d build %s doc %d\nsecond line of %s\n", c32Marker, id, tag, k, name)
			if err := b.Add(index.Document{Name: dn, Content: []byte(content), Branches: []string{"HEAD"}}); err != nil {
				im.err = err
				return
			}
			im.docs = append(im.docs, dn)
		}
		sort.Strings(im.docs)
		var buf bytes.Buffer
		if err := b.Write(&buf); err != nil {
			im.err = err
			return
		}
		im.data = buf.Bytes()
		if bytes.Count(im.data, []byte(c32VerPlaceholder)) != 1 {
			im.err = fmt.Errorf("harness: version placeholder found %d times in the image of %s", bytes.Count(im.data, []byte(c32VerPlaceholder)), key)
		}
	})
	return im, im.err
}

func c32ShardImage(id uint32, name string, ver int) (*c32Image, error) {
	key := c32ImageKey(id, name, ver)
	c32ImgMu.Lock()
	im := c32Images[key]
	if im == nil {
		im = &c32Image{}
		c32Images[key] = im
	}
	c32ImgMu.Unlock()
	im.once.Do(func() {
		// versions from c32OtherDateVer on have a base image of their own: another
		// latest commit date (a repository tombstoned in two compound shards is
		// resurrected in the one with the later date)
		variant := 0
		if ver >= c32OtherDateVer {
			variant = ver - c32OtherDateVer + 1
		}
		base, err := c32BaseImage(id, name, variant)
		if err != nil {
			im.err = err
			return
		}
		hh := fnv.New64a()
		hh.Write([]byte(key))
		commit := fmt.Sprintf("c32commit-%012x", hh.Sum64()&0xffffffffffff)
		im.data = bytes.Replace(base.data, []byte(c32VerPlaceholder), []byte(commit), 1)
		im.docs = base.docs
		im.hash = c32HashBytes(im.data)
	})
	return im, im.err
}

func c32WriteFile(path string, data []byte) error {
	tmp := path + ".c32build"
	if err := os.WriteFile(tmp, data, 0o644); err != nil {
		return err
	}
	return os.Rename(tmp, path)
}

type c32Member struct {
	id   uint32
	name string
	tomb bool
	ver  int
}

func c32MergedImage(members []c32Member, scratch string) (*c32CompoundImage, error) {
	var keys []string
	for _, m := range members {
		keys = append(keys, c32ImageKey(m.id, m.name, m.ver))
	}
	key := strings.Join(keys, ";")
	c32ImgMu.Lock()
	ci := c32Compounds[key]
	if ci == nil {
		ci = &c32CompoundImage{}
		c32Compounds[key] = ci
	}
	c32ImgMu.Unlock()
	ci.once.Do(func() {
		tmpd, err := os.MkdirTemp(scratch, "members-")
		if err != nil {
			ci.err = err
			return
		}
		defer os.RemoveAll(tmpd)
		var files []index.IndexFile
		defer func() {
			for _, f := range files {
				f.Close()
			}
		}()
		ci.docs = map[uint32][]string{}
		for i, m := range members {
			im, err := c32ShardImage(m.id, m.name, m.ver)
			if err != nil {
				ci.err = err
				return
			}
			p := filepath.Join(tmpd, fmt.Sprintf("m%d.zoekt", i))
			if err := c32WriteFile(p, im.data); err != nil {
				ci.err = err
				return
			}
			ci.docs[m.id] = im.docs
			fh, err := os.Open(p)
			if err != nil {
				ci.err = err
				return
			}
			inf, err := index.NewIndexFile(fh)
			if err != nil {
				ci.err = err
				return
			}
			files = append(files, inf)
		}
		tmpName, dstName, err := index.Merge(tmpd, files...)
		if err != nil {
			ci.err = err
			return
		}
		ci.data, ci.err = os.ReadFile(tmpName)
		ci.base = filepath.Base(dstName)
		ci.hash = c32HashBytes(ci.data)
	})
	return ci, ci.err
}

// ---------------------------------------------------------------------------
// world: one generated directory and the record of what was built into it

type c32Repo struct {
	ID   uint32
	Name string
	Alt  string
	Twin uint32
	Kind string
	Flip float64 // probability that the assignment of this repository changes between two rounds
}

type c32World struct {
	r         *rand.Rand
	dir       string
	trash     string
	scratch   string
	now0      time.Time
	pool      []c32Ident
	templates [][]c32Ident
	repos     []*c32Repo
	feat      map[string]bool
	recipe    []string
	expDocs   map[string]map[uint32][]string // shard hash -> repo id -> sorted document names (ground truth of the content)
	born      map[string]time.Time           // base#hash of a trash entry -> `now` of the cleanup that moved it there
	usedIDs   map[uint32]bool
	ver       map[uint32]int
	// repository names owning shard files in the index / the trash while the
	// initial directory is generated (two ids may share a name, a directory
	// cannot hold two files of one name)
	idxNames, trashNames map[string]bool
}

func (w *c32World) snap() *c32Snap { return c32TakeSnap(w.dir, w.expDocs, w.born) }

func (w *c32World) ident(id uint32) (c32Ident, bool) {
	for _, ip := range w.pool {
		if ip.ID == id {
			return ip, true
		}
	}
	return c32Ident{}, false
}

func (w *c32World) repo(id uint32) *c32Repo {
	for _, rp := range w.repos {
		if rp.ID == id {
			return rp
		}
	}
	return nil
}

func (w *c32World) note(format string, a ...any) {
	w.recipe = append(w.recipe, fmt.Sprintf(format, a...))
}

func c32Base(name string, n int) string {
	return fmt.Sprintf("%s_v%d.%05d.zoekt", url.QueryEscape(name), index.IndexFormatVersion, n)
}

// nextVer: every act of indexing a repository (initial index copy, initial trash
// copy, compound member, re-index between rounds) produces different content.
func (w *c32World) nextVer(id uint32) int {
	v := w.ver[id]
	w.ver[id] = v + 1
	return v
}

func (w *c32World) addRepo(ip c32Ident, kind string) *c32Repo {
	rp := &c32Repo{ID: ip.ID, Name: ip.Name, Alt: ip.Alt, Twin: ip.Twin, Kind: kind,
		Flip: []float64{.1, .33, .33, .5, .7}[w.r.IntN(5)]}
	w.usedIDs[ip.ID] = true
	w.repos = append(w.repos, rp)
	return rp
}

// pickIdent: a random unused identity; one time in four the twin (other id, same
// name) of a repository that is already part of the directory.
func (w *c32World) pickIdent() c32Ident {
	if w.r.IntN(4) == 0 {
		var c []c32Ident
		for _, rp := range w.repos {
			if ip, ok := w.ident(rp.Twin); ok && !w.usedIDs[ip.ID] {
				c = append(c, ip)
			}
		}
		if len(c) > 0 {
			return c[w.r.IntN(len(c))]
		}
	}
	for {
		ip := w.pool[w.r.IntN(len(w.pool))]
		if !w.usedIDs[ip.ID] {
			return ip
		}
	}
}

// sidecarFor writes the .meta sidecar of a simple shard the way mergeMeta does
// (format 16 sidecars hold one repository object): same id, the given name, a
// new rank.
func (w *c32World) sidecarFor(p string, name string) error {
	repos, _, err := index.ReadMetadataPath(p)
	if err != nil || len(repos) != 1 {
		return fmt.Errorf("harness: read back %s: %v", p, err)
	}
	repos[0].Name = name
	repos[0].Rank = uint16(w.r.IntN(1000))
	tmp, dst, err := index.JsonMarshalRepoMetaTemp(p, repos[0])
	if err != nil {
		return err
	}
	return os.Rename(tmp, dst)
}

// addSimple builds a simple shard in the index dir or the trash.
func (w *c32World) addSimple(inTrash bool, base string, id uint32, name string, ver int, mtime time.Time, sidecarName string) error {
	dir, where := w.dir, "index"
	if inTrash {
		dir, where = w.trash, ".trash"
	}
	if err := os.MkdirAll(dir, 0o755); err != nil {
		return err
	}
	p := filepath.Join(dir, base)
	if _, err := os.Stat(p); err == nil {
		return fmt.Errorf("harness: %s/%s exists already", where, base)
	}
	// a new shard never inherits a sidecar that was left behind under its name
	_ = os.Remove(p + ".meta")
	im, err := c32ShardImage(id, name, ver)
	if err != nil {
		return err
	}
	if err := c32WriteFile(p, im.data); err != nil {
		return err
	}
	w.expDocs[im.hash] = map[uint32][]string{id: im.docs}
	if sidecarName != "" {
		if err := w.sidecarFor(p, sidecarName); err != nil {
			return err
		}
		w.feat["sidecar"] = true
	}
	if err := os.Chtimes(p, mtime, mtime); err != nil {
		return err
	}
	if base < "compound-" {
		w.feat["simple-shard-sorts-before-compound"] = true
	} else {
		w.feat["simple-shard-sorts-after-compound"] = true
	}
	w.note("%s/%s id=%d name=%q version=%d docs=%d sidecar_name=%q mtime=now0%+v", where, base, id, name, ver, len(im.docs), sidecarName, mtime.Sub(w.now0))
	return nil
}

func (w *c32World) idxTime() time.Time {
	// index mtimes are irrelevant to the statement; spread them around now0 so
	// that nothing depends on the wall clock of the build.
	return w.now0.Add(-time.Duration(w.r.IntN(200*3600)) * time.Second).Add(time.Duration(w.r.IntN(2)) * 50 * time.Hour)
}

func (w *c32World) maybeSidecar(name string) string {
	if w.r.IntN(4) == 0 {
		return name
	}
	return ""
}

type c32Age struct {
	label string
	d     time.Duration // mtime = now0 - d
}

var c32Ages = []c32Age{
	{"future", -30 * time.Minute}, {"future", -5 * time.Hour},
	{"fresh", 0}, {"fresh", 10 * time.Minute}, {"fresh", 2 * time.Hour}, {"fresh", 12 * time.Hour},
	{"fresh", 24*time.Hour - time.Second}, {"fresh", 24 * time.Hour},
	{"old", 24*time.Hour + time.Second}, {"old", 25 * time.Hour}, {"old", 72 * time.Hour},
}

// addTrash puts 1-2 shards of the repository into .trash.
func (w *c32World) addTrash(id uint32, name string, forceFresh bool) error {
	n := 1 + w.r.IntN(2)
	pick := func() c32Age {
		for {
			a := c32Ages[w.r.IntN(len(c32Ages))]
			if !forceFresh || a.label != "old" {
				return a
			}
		}
	}
	a := pick()
	labels := map[string]bool{}
	ver := w.nextVer(id)
	for k := 0; k < n; k++ {
		if k > 0 && w.r.IntN(5) == 0 {
			a = pick()
		}
		labels[a.label] = true
		if err := w.addSimple(true, c32Base(name, k), id, name, ver, w.now0.Add(-a.d), w.maybeSidecar(name)); err != nil {
			return err
		}
		w.feat["trash-"+a.label] = true
	}
	if len(labels) > 1 {
		w.feat["trash-mixed-age"] = true
	}
	if n > 1 {
		w.feat["trash-multi-shard"] = true
	}
	w.trashNames[name] = true
	return nil
}

// addIndex puts n shards of the repository into the index dir.
func (w *c32World) addIndex(id uint32, name string, n int, sidecar func(k int) string) error {
	ver := w.nextVer(id)
	for k := 0; k < n; k++ {
		if err := w.addSimple(false, c32Base(name, k), id, name, ver, w.idxTime(), sidecar(k)); err != nil {
			return err
		}
	}
	w.idxNames[name] = true
	return nil
}

// buildCompound merges the members into one compound shard in the index dir and
// tombstones the members marked so.
func (w *c32World) buildCompound(members []c32Member) error {
	ci, err := c32MergedImage(members, w.scratch)
	if err != nil {
		return err
	}
	var desc []string
	for _, m := range members {
		desc = append(desc, fmt.Sprintf("%d:%s:v%d:tomb=%v", m.id, m.name, m.ver, m.tomb))
	}
	dstName := filepath.Join(w.dir, ci.base)
	if _, err := os.Stat(dstName); err == nil {
		// same set of member names as an earlier group (compound file names are a
		// hash of the member names): keep the earlier one only.
		w.note("compound members=%v dropped: same file name as an earlier group", desc)
		return nil
	}
	if err := c32WriteFile(dstName, ci.data); err != nil {
		return err
	}
	w.expDocs[ci.hash] = ci.docs
	for _, m := range members {
		if m.tomb {
			if err := index.SetTombstone(dstName, m.id); err != nil {
				return err
			}
			w.feat["tombstoned-member"] = true
		}
	}
	mt := w.idxTime()
	_ = os.Chtimes(dstName, mt, mt)
	w.feat["compound"] = true
	w.note("index/%s compound members=%v", ci.base, desc)
	return nil
}

type c32KindW struct {
	k string
	w int
}

var c32Kinds = []c32KindW{
	{"simple", 18}, {"multi", 12}, {"compound", 20}, {"ctomb", 8}, {"tombtwo", 2},
	{"trash", 13}, {"trashidx", 6}, {"trashctomb", 6}, {"renamed", 8}, {"dup", 4}, {"absent", 5}, {"collide", 4},
}

// c32Needs: does the kind put shard files named after the repository name into
// the index dir / the trash?
func c32Needs(kind string) (idx, trash bool) {
	switch kind {
	case "simple", "multi", "dup", "renamed":
		return true, false // ("renamed" is refined later; every refinement puts files named after Name or Alt into the index)
	case "trash", "trashctomb":
		return false, true
	case "trashidx", "collide":
		return true, true
	}
	return false, false
}

func (w *c32World) pickKind(nComp int, ip c32Ident) string {
	tot := 0
	for _, k := range c32Kinds {
		tot += k.w
	}
	x := w.r.IntN(tot)
	kind := ""
	for _, k := range c32Kinds {
		if x < k.w {
			kind = k.k
			break
		}
		x -= k.w
	}
	if nComp == 0 {
		switch kind {
		case "compound", "tombtwo":
			kind = "simple"
		case "ctomb", "trashctomb":
			kind = "trash"
		case "dup":
			kind = "multi"
		}
	}
	// file names are derived from the repository name: a kind only fits while its
	// names are free (the other id of the same name may hold them already)
	for try := 0; try < 3; try++ {
		ni, nt := c32Needs(kind)
		idxFree, trashFree := !w.idxNames[ip.Name], !w.trashNames[ip.Name]
		if strings.HasPrefix(ip.Name, "compound-") {
			trashFree = false // files called compound-* are never placed in the trash
		}
		if kind == "collide" {
			if tw, ok := w.ident(ip.Twin); !ok || w.usedIDs[tw.ID] {
				kind = "trash"
				continue
			}
		}
		if (!ni || idxFree) && (!nt || trashFree) {
			return kind
		}
		switch {
		case trashFree && nComp > 0 && kind == "trashidx":
			kind = "trashctomb"
		case trashFree:
			kind = "trash"
		case idxFree:
			kind = "simple"
		case nComp > 0:
			kind = "compound"
		default:
			kind = "absent"
		}
	}
	return "absent"
}

// c32MemberVer is the image version of the member of a compound template: the
// merged image of a template is the same in every directory that uses it.
const c32MemberVer = 100

// c32OtherDateVer: see c32ShardImage.
const c32OtherDateVer = 200

var c32MemberKinds = []c32KindW{{"compound", 55}, {"ctomb", 18}, {"trashctomb", 12}, {"renamed-member", 8}, {"dup", 7}}

func (w *c32World) pickMemberKind(ip c32Ident) string {
	x := w.r.IntN(100)
	kind := "compound"
	for _, k := range c32MemberKinds {
		if x < k.w {
			kind = k.k
			break
		}
		x -= k.w
	}
	switch {
	case kind == "trashctomb" && (w.trashNames[ip.Name] || strings.HasPrefix(ip.Name, "compound-")), kind == "dup" && w.idxNames[ip.Name]:
		kind = "compound"
	}
	return kind
}

// pickTemplate: a compound template none of whose repositories is in the directory yet.
func (w *c32World) pickTemplate() []c32Ident {
	for try := 0; try < 6; try++ {
		t := w.templates[w.r.IntN(len(w.templates))]
		ok := true
		for _, ip := range t {
			if w.usedIDs[ip.ID] {
				ok = false
			}
		}
		if ok {
			return t
		}
	}
	return nil
}

// place creates what the kind asks for. join adds a member to a compound group.
func (w *c32World) place(ip c32Ident, kind string, join func(c32Member), memberVer func() int, everyGroup func(func() c32Member)) error {
	r := w.r
	id, name := ip.ID, ip.Name
	none := func(int) string { return "" }
	var err error
	switch kind {
	case "simple":
		err = w.addIndex(id, name, 1, func(int) string { return w.maybeSidecar(name) })
	case "multi":
		err = w.addIndex(id, name, 2+r.IntN(2), func(int) string { return w.maybeSidecar(name) })
	case "compound":
		join(c32Member{id: id, name: name, ver: memberVer()})
	case "ctomb":
		join(c32Member{id: id, name: name, tomb: true, ver: memberVer()})
	case "tombtwo":
		// tombstoned in every (free-form) compound shard, with different commit dates
		g := 0
		everyGroup(func() c32Member {
			g++
			return c32Member{id: id, name: name, tomb: true, ver: c32OtherDateVer + g - 1}
		})
	case "trash":
		err = w.addTrash(id, name, false)
	case "trashidx":
		if err = w.addTrash(id, name, false); err == nil {
			err = w.addIndex(id, name, 1, func(int) string { return w.maybeSidecar(name) })
		}
	case "trashctomb":
		if err = w.addTrash(id, name, r.IntN(2) == 0); err == nil {
			join(c32Member{id: id, name: name, tomb: true, ver: memberVer()})
		}
	case "renamed-two-files":
		other := ip.Alt
		if err = w.addIndex(id, name, 1, none); err == nil {
			err = w.addIndex(id, other, 1, func(int) string { return w.maybeSidecar(other) })
		}
		w.feat["renamed-two-files"] = true
	case "renamed-by-sidecar":
		// multi-shard repository, one shard renamed through its sidecar only
		other, which := ip.Alt, r.IntN(2)
		err = w.addIndex(id, name, 2, func(k int) string {
			if k == which {
				return other
			}
			return ""
		})
		w.feat["renamed-by-sidecar"] = true
	case "renamed-member":
		// old name inside a compound shard, new name as 1-2 simple shards
		other := ip.Alt
		join(c32Member{id: id, name: name, ver: memberVer()})
		err = w.addIndex(id, other, 1+r.IntN(2), none)
		w.feat["renamed-compound-and-simple"] = true
		if c32Base(other, 0) < "compound-" {
			w.feat["renamed-compound-and-simple-sorting-first"] = true
		}
	case "dup":
		// alive both in simple shards and in a compound shard (same name): the
		// state between a re-index and the tombstoning of the merged copy.
		join(c32Member{id: id, name: name, ver: memberVer()})
		err = w.addIndex(id, name, 1+r.IntN(2), none)
		if c32Base(name, 0) < "compound-" {
			w.feat["dup-simple-sorting-first"] = true
		}
	case "absent":
		// known to the assignment only
	case "collide":
		// two repository ids with one name: the older one sits in the trash
		// under the shard file names the newer one uses in the index.
		if err = w.addTrash(id, name, true); err == nil {
			tw, _ := w.ident(ip.Twin)
			w.addRepo(tw, "collide-partner")
			w.feat["two-ids-one-name"] = true
			sc := none
			if r.IntN(4) == 0 {
				sc = func(int) string { return name }
			}
			err = w.addIndex(tw.ID, name, 1+r.IntN(2), sc)
		}
	default:
		err = fmt.Errorf("harness: unknown kind %q", kind)
	}
	return err
}

func (w *c32World) generate() error {
	r := w.r
	nRepos := 3 + r.IntN(8)
	nComp := []int{0, 1, 1, 1, 2, 2}[r.IntN(6)]
	groups := make([][]c32Member, nComp)
	var free []int // groups without a template: any repository may join them
	for g := 0; g < nComp; g++ {
		var tpl []c32Ident
		if r.IntN(100) < 85 {
			tpl = w.pickTemplate()
		}
		if tpl == nil {
			free = append(free, g)
			continue
		}
		w.feat["compound-from-template"] = true
		for _, ip := range tpl {
			w.usedIDs[ip.ID] = true
		}
		for _, ip := range tpl {
			kind := w.pickMemberKind(ip)
			w.addRepo(ip, kind)
			w.feat["kind-"+kind] = true
			err := w.place(ip, kind, func(m c32Member) { groups[g] = append(groups[g], m) }, func() int { return c32MemberVer }, nil)
			if err != nil {
				return err
			}
		}
	}
	join := func(m c32Member) {
		g := free[r.IntN(len(free))]
		groups[g] = append(groups[g], m)
	}
	extra := nRepos - len(w.repos)
	if extra < 1 {
		extra = 1
	}
	for i := 0; i < extra; i++ {
		ip := w.pickIdent()
		id := ip.ID
		kind := w.pickKind(len(free), ip)
		if kind == "renamed" {
			switch v := r.IntN(3); {
			case v == 0:
				kind = "renamed-two-files"
			case v == 1 || len(free) == 0:
				kind = "renamed-by-sidecar"
			default:
				kind = "renamed-member"
			}
		}
		w.addRepo(ip, kind)
		w.feat["kind-"+kind] = true
		if tw := w.repo(ip.Twin); tw != nil {
			w.feat["two-ids-one-name"] = true
		}
		err := w.place(ip, kind, join, func() int { return w.nextVer(id) }, func(mk func() c32Member) {
			for _, g := range free {
				groups[g] = append(groups[g], mk())
			}
		})
		if err != nil {
			return err
		}
	}
	for _, g := range groups {
		if len(g) == 0 {
			continue
		}
		if err := w.buildCompound(g); err != nil {
			return err
		}
	}
	if r.IntN(5) == 0 {
		w.addOrphanSidecar(nil)
	}
	return w.addTmp()
}

func (w *c32World) addTmp() error {
	r := w.r
	if r.IntN(2) == 0 {
		return nil
	}
	names := []string{
		fmt.Sprintf("left%d_v16.00000.zoekt.%d.tmp", r.IntN(100), r.IntN(1e6)),
		fmt.Sprintf("compound-dead%d_v17.00000.zoekt.tmp", r.IntN(100)),
		fmt.Sprintf("x%d_v16.00000.zoekt.meta.%d.tmp", r.IntN(100), r.IntN(1e6)),
	}
	for _, n := range names {
		if r.IntN(2) == 0 {
			continue
		}
		p := filepath.Join(w.dir, n)
		if err := os.WriteFile(p, []byte("partial write"), 0o644); err != nil {
			return err
		}
		mt := w.now0.Add(-time.Duration(r.IntN(10*3600)) * time.Second)
		_ = os.Chtimes(p, mt, mt)
		w.feat["tmp-file"] = true
		w.note("index/%s leftover temp file", n)
	}
	if r.IntN(4) == 0 {
		n := fmt.Sprintf("build%d.tmp", r.IntN(100))
		if err := os.MkdirAll(filepath.Join(w.dir, n), 0o755); err != nil {
			return err
		}
		w.feat["tmp-dir"] = true
		w.note("index/%s/ directory named *.tmp", n)
	}
	return nil
}

// addOrphanSidecar leaves a <shard>.zoekt.meta without its shard in the index
// dir or the trash (what an interrupted move of shard + sidecar leaves behind:
// the shard file is renamed first). It describes the repository itself or the
// other id of the same name. Returns a description ("" = nothing written).
func (w *c32World) addOrphanSidecar(log *[]string) string {
	r := w.r
	if len(w.repos) == 0 {
		return ""
	}
	rp := w.repos[r.IntN(len(w.repos))]
	id := rp.ID
	if tw, ok := w.ident(rp.Twin); ok && r.IntN(2) == 0 {
		id = tw.ID
	}
	dir, where := w.dir, "index"
	if r.IntN(2) == 0 {
		dir, where = w.trash, ".trash"
	}
	p := filepath.Join(dir, c32Base(rp.Name, r.IntN(2)))
	if _, err := os.Stat(p); err == nil {
		return ""
	}
	if _, err := os.Stat(p + ".meta"); err == nil {
		return ""
	}
	if err := os.MkdirAll(dir, 0o755); err != nil {
		return ""
	}
	tmp, dst, err := index.JsonMarshalRepoMetaTemp(p, &zoekt.Repository{ID: id, Name: rp.Name, Rank: uint16(r.IntN(1000))})
	if err != nil {
		return ""
	}
	if err := os.Rename(tmp, dst); err != nil {
		return ""
	}
	w.feat["orphan-sidecar"] = true
	d := fmt.Sprintf("%s/%s.meta orphaned sidecar describing id=%d name=%q", where, filepath.Base(p), id, rp.Name)
	if log != nil {
		*log = append(*log, d)
	} else {
		w.note("%s", d)
	}
	return d
}

// evolve is what happens between two cleanups: the assignment changes, and the
// indexer works on the directory. cur is the state after the previous cleanup.
// It returns a log of what it did (part of the witness) and whether the
// directory was touched.
func (w *c32World) evolve(round int, now time.Time, assigned map[uint32]bool, cur *c32Snap, rec *kit.Rec) (acts []string, touched bool) {
	r := w.r
	flip := func(id uint32) {
		if assigned[id] {
			delete(assigned, id)
		} else {
			assigned[id] = true
		}
	}
	for _, rp := range w.repos {
		if r.Float64() < rp.Flip {
			flip(rp.ID)
		}
	}
	// hand-over between two ids of one name (repository deleted and re-created)
	for _, rp := range w.repos {
		tw := w.repo(rp.Twin)
		if tw == nil || rp.ID > tw.ID || r.IntN(4) != 0 {
			continue
		}
		if assigned[rp.ID] == assigned[tw.ID] {
			delete(assigned, rp.ID)
			assigned[tw.ID] = true
		} else {
			flip(rp.ID)
			flip(tw.ID)
		}
		rec.Count("handover_between_ids_of_one_name", 1)
	}
	// a new id arrives under the name of a repository of this directory
	if r.IntN(6) == 0 {
		var c []c32Ident
		for _, rp := range w.repos {
			if ip, ok := w.ident(rp.Twin); ok && !w.usedIDs[ip.ID] {
				c = append(c, ip)
			}
		}
		if len(c) > 0 {
			ip := c[r.IntN(len(c))]
			w.addRepo(ip, "arrived")
			assigned[ip.ID] = true
			if r.IntN(3) != 0 {
				delete(assigned, ip.Twin)
			}
			acts = append(acts, fmt.Sprintf("new repository id=%d takes the name %q of id=%d", ip.ID, ip.Name, ip.Twin))
			rec.Count("new_id_arrives_under_used_name", 1)
		}
	}
	// the indexer: assigned repositories that are not searchable get indexed
	written := map[string]bool{}
	for _, rp := range w.repos {
		if !assigned[rp.ID] || len(cur.aliveIdx[rp.ID]) > 0 || r.IntN(2) != 0 {
			continue
		}
		n := 1 + r.IntN(2)
		free := true
		for k := 0; k < n; k++ {
			b := c32Base(rp.Name, k)
			if cur.Index[b] != nil || written[b] {
				free = false
			}
		}
		if !free {
			continue
		}
		ver := w.nextVer(rp.ID)
		sc := w.maybeSidecar(rp.Name)
		for k := 0; k < n; k++ {
			b := c32Base(rp.Name, k)
			if err := w.addSimple(false, b, rp.ID, rp.Name, ver, now, sc); err != nil {
				rec.Violation("harness/build", err.Error(), nil)
				return acts, true
			}
			written[b] = true
			acts = append(acts, fmt.Sprintf("indexed index/%s id=%d version=%d sidecar=%v", b, rp.ID, ver, sc != ""))
		}
		touched = true
		rec.Count("indexed_between_rounds", 1)
		if len(cur.aliveTrash[rp.ID]) > 0 {
			rec.Count("indexed_between_rounds_while_in_trash", 1)
		}
		if cur.Trash[c32Base(rp.Name, 0)] != nil && !cur.Trash[c32Base(rp.Name, 0)].alive(rp.ID) {
			rec.Count("indexed_between_rounds_under_a_file_name_held_in_trash_by_another_id", 1)
		}
	}
	// metadata-only update: every shard of the repository gets a sidecar
	for _, rp := range w.repos {
		fs := cur.aliveIdx[rp.ID]
		if len(fs) == 0 || len(cur.namesIdx[rp.ID]) != 1 || r.IntN(5) != 0 {
			continue
		}
		simple := true
		for _, f := range fs {
			if f.Compound || written[f.Base] {
				simple = false
			}
		}
		if !simple {
			continue
		}
		for _, f := range fs {
			if err := w.sidecarFor(filepath.Join(w.dir, f.Base), c32AnyName(cur.namesIdx[rp.ID])); err != nil {
				rec.Violation("harness/build", err.Error(), nil)
				return acts, true
			}
			acts = append(acts, fmt.Sprintf("metadata-only update: sidecar for index/%s", f.Base))
		}
		touched = true
		w.feat["sidecar"] = true
		rec.Count("metadata_updated_between_rounds", 1)
	}
	if r.IntN(4) == 0 {
		_ = w.addTmp()
		touched = true
	}
	if r.IntN(8) == 0 {
		if w.addOrphanSidecar(&acts) != "" {
			touched = true
		}
	}
	return acts, touched
}

// ---------------------------------------------------------------------------
// the oracle

type c32Finding struct{ sig, what string }

type c32Judgement struct {
	findings    []c32Finding
	ev          map[string]int
	keepObl     int // assigned repositories that had to stay / come back
	removeObl   int // unassigned repositories that had to leave the index
	trashJudged int // trash entries whose fate was judged
}

func c32HasFile(m map[string]*c32File, f *c32File) *c32File {
	if g := m[f.Base]; g != nil && g.Hash == f.Hash {
		return g
	}
	return nil
}

// c32NameConflict: does a shard with the file name of one of the trashed shards
// exist in the index (judged per repository, like age)?
func c32NameConflict(files []*c32File, B *c32Snap) bool {
	for _, f := range files {
		if B.Index[f.Base] != nil {
			return true
		}
	}
	return false
}

func c32OwnedByAssigned(f *c32File, assigned map[uint32]bool, except uint32) bool {
	for _, e := range f.Ents {
		if e.ID != except && assigned[e.ID] {
			return true
		}
	}
	return false
}

func c32AnyOld(files []*c32File, now time.Time) bool {
	minAge := now.Add(-24 * time.Hour)
	for _, f := range files {
		if f.since().Before(minAge) {
			return true
		}
	}
	return false
}

func c32Judge(B, A *c32Snap, assigned map[uint32]bool, now time.Time, merging bool) *c32Judgement {
	j := &c32Judgement{ev: map[string]int{}}
	add := func(sig, format string, a ...any) {
		j.findings = append(j.findings, c32Finding{sig, fmt.Sprintf(format, a...)})
	}

	// (1) assigned repositories stay searchable / come back from the trash.
	for _, id := range c32SortedIDs(assigned) {
		bf := B.aliveIdx[id]
		if len(bf) > 0 {
			if len(B.namesIdx[id]) > 1 {
				j.ev["assigned_with_inconsistent_names_exempt"]++
				continue
			}
			j.keepObl++
			ok := true
			for _, f := range bf {
				af := A.Index[f.Base]
				if af != nil && af.Hash == f.Hash && af.alive(id) {
					continue
				}
				ok = false
				fate := "deleted"
				switch {
				case af != nil && af.Hash == f.Hash:
					fate = "tombstoned"
				case af != nil:
					fate = "overwritten"
				case c32HasFile(A.Trash, f) != nil:
					fate = "trashed"
				}
				switch {
				case f.Compound:
					plain, dup, renamed := false, false, false
					for _, e := range f.Ents {
						switch {
						case e.Tomb || e.ID == id:
						case !assigned[e.ID] && len(B.aliveIdx[e.ID]) > 1:
							dup = true // the state between a re-index and the tombstoning of the merged copy
						case !assigned[e.ID]:
							plain = true
						case len(B.namesIdx[e.ID]) > 1:
							renamed = true
						}
					}
					cause := "unknown"
					switch {
					case dup && merging: // with shard merging a single compound copy would have been tombstoned
						cause = "unassigned co-resident that is also alive in another shard"
					case plain || dup:
						cause = "unassigned co-resident"
					case renamed:
						cause = "renamed co-resident"
					}
					add(fmt.Sprintf("assigned repo lost/compound shard %s/cause=%s/shardMerging=%v", fate, cause, merging),
						"assigned repository %d (%s) was alive in %s before cleanup; afterwards that shard is %s", id, c32AnyName(B.namesIdx[id]), f.Base, fate)
				case B.Trash[f.Base] != nil && B.Trash[f.Base].Hash != f.Hash && !B.Trash[f.Base].alive(id) && c32OwnedByAssigned(B.Trash[f.Base], assigned, id):
					// Two ASSIGNED repositories own the same shard file name (shards are named
					// after the repository name): the directory cannot hold both, so "keep the
					// indexed one" and "restore the trashed one" cannot both be honoured. The
					// property is not satisfiable for this input; it is not judged.
					j.ev["assigned_sharing_a_shard_file_name_with_an_assigned_trashed_repo_not_judged"]++
				case B.Trash[f.Base] != nil && B.Trash[f.Base].Hash != f.Hash && !B.Trash[f.Base].alive(id):
					add("assigned repo lost/shard file name shared with a trash entry of another repository",
						"assigned repository %d (%s): shard %s is %s after cleanup; .trash held a different shard with the same file name (%s)", id, c32AnyName(B.namesIdx[id]), f.Base, fate, B.Trash[f.Base].line(".trash", true))
				default:
					add(fmt.Sprintf("assigned repo lost/simple shard %s/shardMerging=%v", fate, merging),
						"assigned repository %d (%s) was alive in %s before cleanup; afterwards that shard is %s", id, c32AnyName(B.namesIdx[id]), f.Base, fate)
				}
			}
			if ok {
				j.ev["assigned_kept"]++
				if len(bf) > 1 {
					j.ev["assigned_kept_multi_shard"]++
				}
				if bf[0].Compound {
					j.ev["assigned_kept_in_compound"]++
				}
			}
			continue
		}
		tf := B.aliveTrash[id]
		if hf := B.hiddenTrash[id]; len(tf) == 0 && len(hf) > 0 {
			// The trash holds shards that were built for this repository, but their
			// metadata does not say so (a sidecar of another repository lies next to
			// them). The repository is in the trash all the same: the restore clause
			// applies to it like to any other trashed repository.
			restored, gone := 0, 0
			for _, f := range hf {
				if g := c32HasFile(A.Index, f); g != nil && g.alive(id) {
					restored++
				}
				if c32HasFile(A.Index, f) == nil && c32HasFile(A.Trash, f) == nil {
					gone++
				}
			}
			switch {
			case c32AnyOld(hf, now):
				j.ev["assigned_unrecognisable_old_trash"]++
			case c32NameConflict(hf, B) && restored == 0 && gone == len(hf):
				j.ev["assigned_unrecognisable_trash_deleted_file_name_conflict"]++
			case restored == len(hf):
				j.keepObl++
				j.ev["assigned_unrecognisable_trash_restored"]++
			default:
				j.keepObl++
				var ls []string
				for _, f := range hf {
					ls = append(ls, f.line(".trash", true))
				}
				add("assigned repo not restored from trash/trashed shard carries the sidecar of another repository",
					"assigned repository %d: its shards are in .trash (all younger than 24 h) but labelled as another repository by the sidecar next to them, and %d of %d are searchable under id %d after cleanup: %s",
					id, restored, len(hf), id, strings.Join(ls, "; "))
			}
			continue
		}
		if len(tf) == 0 {
			if len(B.tombIdx[id]) > 0 {
				if len(A.aliveIdx[id]) > 0 {
					j.ev["assigned_untombstoned"]++
				} else {
					j.ev["assigned_tombstone_left"]++
				}
			} else {
				j.ev["assigned_absent"]++
			}
			continue
		}
		if len(B.namesInTrash[id]) > 1 {
			j.ev["assigned_trash_with_inconsistent_names_exempt"]++
			continue
		}
		restored := 0
		for _, f := range tf {
			if g := c32HasFile(A.Index, f); g != nil && g.alive(id) {
				restored++
			}
		}
		if c32AnyOld(tf, now) {
			// both "restore" and "delete, it is older than 24 h" are licensed
			switch restored {
			case len(tf):
				j.ev["assigned_old_trash_restored"]++
			case 0:
				j.ev["assigned_old_trash_not_restored"]++
			default:
				add("assigned repo partially restored from old trash", "assigned repository %d: %d of %d trashed shards restored", id, restored, len(tf))
			}
			continue
		}
		if c32NameConflict(tf, B) {
			// a shard of another repository owns one of the file names in the index:
			// "restore" and "delete, it conflicts with an indexed copy" are both
			// licensed; leaving it in the trash or restoring a part is not.
			gone := 0
			for _, f := range tf {
				if c32HasFile(A.Index, f) == nil && c32HasFile(A.Trash, f) == nil {
					gone++
				}
			}
			if restored == 0 && gone == len(tf) {
				j.ev["assigned_trash_deleted_file_name_conflict"]++
				continue
			}
		}
		j.keepObl++
		if restored == len(tf) {
			j.ev["assigned_restored_from_trash"]++
			if len(tf) > 1 {
				j.ev["assigned_restored_multi_shard"]++
			}
			if len(B.tombIdx[id]) > 0 {
				j.ev["assigned_restored_although_tombstoned"]++
			}
			continue
		}
		ctx := "plain"
		for _, f := range tf {
			if B.Index[f.Base] != nil && !B.Index[f.Base].alive(id) {
				ctx = "shard file name shared with an indexed shard of another repository"
			}
		}
		if ctx == "plain" && len(B.tombIdx[id]) > 0 {
			ctx = "tombstoned in a compound shard"
		}
		var fates []string
		for _, f := range tf {
			switch {
			case c32HasFile(A.Index, f) != nil:
				fates = append(fates, f.Base+": in index")
			case c32HasFile(A.Trash, f) != nil:
				fates = append(fates, f.Base+": still in .trash")
			default:
				fates = append(fates, f.Base+": deleted")
			}
		}
		add("assigned repo not restored from trash/"+ctx,
			"assigned repository %d (%s) was only in .trash (all shards younger than 24 h) before cleanup and is not fully searchable afterwards: %s", id, c32AnyName(B.namesInTrash[id]), strings.Join(fates, ", "))
	}

	// (2) no unassigned repository stays alive in the searchable index.
	for _, id := range c32SortedIDs(B.aliveIdx) {
		if !assigned[id] {
			j.removeObl++
		}
	}
	for _, id := range c32SortedIDs(A.aliveIdx) {
		if assigned[id] {
			continue
		}
		f := A.aliveIdx[id][0]
		kind := "simple"
		if f.Compound {
			kind = "compound"
		}
		origin := "left in index"
		if len(B.aliveIdx[id]) == 0 {
			origin = "brought into index"
		}
		add(fmt.Sprintf("unassigned repo still searchable/%s/%s shard/shardMerging=%v", origin, kind, merging),
			"repository %d is not assigned but alive in %s after cleanup", id, f.Base)
	}
	for _, id := range c32SortedIDs(B.aliveIdx) {
		if assigned[id] || len(A.aliveIdx[id]) > 0 {
			continue
		}
		tomb, trashed := false, false
		for _, f := range B.aliveIdx[id] {
			if g := c32HasFile(A.Index, f); g != nil && g.tomb(id) {
				tomb = true
			}
			if c32HasFile(A.Trash, f) != nil {
				trashed = true
				// the destination in the trash was occupied by another repository
				if o := B.Trash[f.Base]; o != nil && o.Hash != f.Hash && !o.alive(id) {
					j.ev["unassigned_trashed_over_a_trash_entry_of_another_repository"]++
					if o.Meta != "" && f.Meta == "" {
						j.ev["unassigned_without_sidecar_trashed_over_a_trash_entry_with_sidecar"]++
					}
				}
			}
			if o := B.Trash[f.Base]; o == nil && c32HasFile(A.Trash, f) != nil && c32InList(B.TrashOther, f.Base+".meta") {
				j.ev["unassigned_trashed_onto_an_orphaned_sidecar"]++
			}
		}
		switch {
		case len(B.namesIdx[id]) > 1:
			j.ev["unassigned_inconsistent_names_removed"]++
		case tomb:
			j.ev["unassigned_tombstoned_in_compound"]++
		case trashed:
			j.ev["unassigned_moved_to_trash"]++
			if len(B.aliveIdx[id]) > 1 {
				j.ev["unassigned_moved_to_trash_multi_shard"]++
			}
		default:
			j.ev["unassigned_deleted_outright"]++
		}
	}
	for _, id := range c32SortedIDs(B.namesIdx) {
		if assigned[id] && len(B.namesIdx[id]) > 1 && len(A.aliveIdx[id]) == 0 {
			j.ev["assigned_inconsistent_names_removed"]++
		}
	}

	// (3) trash entries are deleted for good only when old or conflicting.
	for _, id := range c32SortedIDs(B.aliveTrash) {
		tf := B.aliveTrash[id]
		old := c32AnyOld(tf, now)
		for _, f := range tf {
			j.trashJudged++
			if c32HasFile(A.Trash, f) != nil {
				j.ev["trash_entry_kept"]++
				if f.MTime.After(now) && A.Trash[f.Base].MTime.Equal(now) {
					j.ev["trash_future_mtime_reset_to_now"]++
				}
				continue
			}
			if c32HasFile(A.Index, f) != nil {
				j.ev["trash_entry_moved_to_index"]++
				continue
			}
			switch {
			case len(B.aliveIdx[id]) > 0:
				j.ev["trash_entry_deleted_conflict_with_index"]++
			case old:
				j.ev["trash_entry_deleted_older_than_24h"]++
			case c32NameConflict(tf, B):
				// same shard file name in the index (another id): counted as a
				// conflict with an indexed copy, the statement does not say by what
				// a conflict is recognised.
				j.ev["trash_entry_deleted_file_name_conflict"]++
			default:
				who := "unassigned"
				if assigned[id] {
					who = "assigned"
				}
				add("trash entry younger than 24h permanently deleted/"+who,
					"trash entry %s of repository %d (mtime %s, in the trash since %s, now %s, age %s) is gone from .trash and index although no indexed copy existed", f.Base, id,
					f.MTime.UTC().Format(time.RFC3339), f.since().UTC().Format(time.RFC3339), now.UTC().Format(time.RFC3339), now.Sub(f.since()))
			}
		}
	}

	// compound shards that disappeared as a whole
	for _, b := range c32SortedBases(B.Index) {
		if f := B.Index[b]; f.Compound && A.Index[b] == nil {
			j.ev["compound_shard_removed_whole"]++
		}
	}
	// temp files (no requirement in the statement; observed only)
	after := map[string]bool{}
	for _, n := range A.Other {
		after[n] = true
	}
	for _, n := range B.Other {
		switch {
		case strings.HasSuffix(n, ".tmp") && !after[n]:
			j.ev["tmp_file_removed"]++
		case strings.HasSuffix(n, ".tmp/") && after[n]:
			j.ev["tmp_dir_left"]++
		case !after[n]:
			j.ev["other_entry_removed"]++
		}
	}
	return j
}

func c32InList(l []string, x string) bool {
	for _, y := range l {
		if y == x {
			return true
		}
	}
	return false
}

func c32AnyName(m map[string]bool) string {
	var l []string
	for n := range m {
		l = append(l, n)
	}
	sort.Strings(l)
	return strings.Join(l, "|")
}

// c32SearchFile opens one shard with the production reader and searches the
// marker. The answer is a function of the bytes of the shard and of its sidecar;
// it is computed once per distinct pair and run.
type c32SearchRes struct {
	got  map[uint32][]string // repository id -> sorted file names
	fail *c32Finding
}

var (
	c32SearchMu   sync.Mutex
	c32SearchMemo = map[string]*c32SearchRes{}
)

func c32SearchFile(p string, f *c32File) *c32SearchRes {
	key := f.Hash + "\x00" + f.Meta
	c32SearchMu.Lock()
	sr := c32SearchMemo[key]
	c32SearchMu.Unlock()
	if sr != nil {
		return sr
	}
	sr = &c32SearchRes{}
	failed := func(sig, what string) *c32SearchRes {
		sr.fail = &c32Finding{sig, what}
		return sr // failures are not memoised: the witness names the file
	}
	fh, err := os.Open(p)
	if err != nil {
		return failed("harness/open", err.Error())
	}
	inf, err := index.NewIndexFile(fh)
	if err != nil {
		return failed("index shard unreadable after cleanup", f.Base+": "+err.Error())
	}
	s, err := index.NewSearcher(inf)
	if err != nil {
		inf.Close()
		return failed("index shard unreadable after cleanup", f.Base+": "+err.Error())
	}
	defer s.Close()
	var res *zoekt.SearchResult
	q := &query.Substring{Pattern: c32Marker, Content: true}
	if msg, stack, panicked := kit.Guard(func() { res, err = s.Search(context.Background(), q, &zoekt.SearchOptions{}) }); panicked {
		return failed("search panics on an index shard after cleanup/"+kit.PanicSite(stack), f.line("index", false)+": "+msg)
	}
	if err != nil {
		return failed("search error after cleanup", f.Base+": "+err.Error())
	}
	sr.got = map[uint32][]string{}
	for _, fm := range res.Files {
		sr.got[fm.RepositoryID] = append(sr.got[fm.RepositoryID], fm.FileName)
	}
	for id := range sr.got {
		sort.Strings(sr.got[id])
	}
	c32SearchMu.Lock()
	c32SearchMemo[key] = sr
	c32SearchMu.Unlock()
	return sr
}

// c32SearchShards opens every shard of the index dir through the production
// reader and checks that alive repositories return exactly the documents that
// were written, and tombstoned ones none.
func (w *c32World) searchShards(B, A *c32Snap) []c32Finding {
	var out []c32Finding
	for _, b := range c32SortedBases(A.Index) {
		f := A.Index[b]
		if f.Err != "" {
			sig := "index shard unreadable after cleanup"
			if f.Compound && strings.Contains(f.Base, fmt.Sprintf("_v%d.", index.IndexFormatVersion)) {
				sig += "/simple shard of a repository named compound-*"
			}
			out = append(out, c32Finding{sig, f.Base + ": " + f.Err})
			continue
		}
		exp, ok := w.expDocs[f.Hash]
		if !ok {
			out = append(out, c32Finding{"harness/unknown shard content", f.line("index", false)})
			continue
		}
		if f.mislabelled() {
			origin := "was in the index"
			if c32HasFile(B.Trash, f) != nil {
				origin = "restored from trash"
			}
			out = append(out, c32Finding{"index shard labelled as another repository after cleanup/" + origin,
				fmt.Sprintf("%s: the shard was built for repositories %v, its metadata (shard + sidecar) now says %s", f.Base, f.Content, f.line("index", false))})
			continue
		}
		sr := c32SearchFile(filepath.Join(w.dir, b), f)
		if sr.fail != nil {
			out = append(out, *sr.fail)
			continue
		}
		got := sr.got
		for _, e := range f.Ents {
			g := got[e.ID]
			switch {
			case e.Tomb && len(g) > 0:
				out = append(out, c32Finding{"tombstoned repo returns documents", fmt.Sprintf("%s: repository %d is tombstoned but search returned %v", f.Base, e.ID, g)})
			case !e.Tomb && strings.Join(g, "\x00") != strings.Join(exp[e.ID], "\x00"):
				out = append(out, c32Finding{"alive repo does not return its documents", fmt.Sprintf("%s: repository %d: want %v got %v", f.Base, e.ID, exp[e.ID], g)})
			}
		}
	}
	return out
}

// c32SearchDir loads the directory with the production directory searcher and
// compares the (repository id, file) multiset with what the shard metadata says
// is alive.
func (w *c32World) searchDir(A *c32Snap) []c32Finding {
	want := map[string]int{}
	for _, b := range c32SortedBases(A.Index) {
		f := A.Index[b]
		for _, e := range f.Ents {
			if e.Tomb {
				continue
			}
			for _, d := range w.expDocs[f.Hash][e.ID] {
				want[fmt.Sprintf("%d %s", e.ID, d)]++
			}
		}
	}
	ds, err := search.NewDirectorySearcher(w.dir)
	if err != nil {
		return []c32Finding{{"directory searcher failed after cleanup", err.Error()}}
	}
	defer ds.Close()
	var res *zoekt.SearchResult
	if msg, stack, panicked := kit.Guard(func() {
		res, err = ds.Search(context.Background(), &query.Substring{Pattern: c32Marker, Content: true}, &zoekt.SearchOptions{})
	}); panicked {
		return []c32Finding{{"search panics on the directory after cleanup/" + kit.PanicSite(stack), msg}}
	}
	if err != nil {
		return []c32Finding{{"search error after cleanup", "directory searcher: " + err.Error()}}
	}
	got := map[string]int{}
	for _, fm := range res.Files {
		got[fmt.Sprintf("%d %s", fm.RepositoryID, fm.FileName)]++
	}
	var diff []string
	for k, n := range want {
		if got[k] != n {
			diff = append(diff, fmt.Sprintf("%s want %d got %d", k, n, got[k]))
		}
	}
	for k, n := range got {
		if want[k] == 0 {
			diff = append(diff, fmt.Sprintf("%s want 0 got %d", k, n))
		}
	}
	if len(diff) > 0 {
		sort.Strings(diff)
		return []c32Finding{{"directory searcher disagrees with alive shard metadata", strings.Join(diff, "; ")}}
	}
	return nil
}

// ---------------------------------------------------------------------------
// driver

func c32Quiet() func() {
	oi, oe, od := infoLog.Writer(), errorLog.Writer(), debugLog.Writer()
	ol := log.Writer()
	infoLog.SetOutput(io.Discard)
	errorLog.SetOutput(io.Discard)
	debugLog.SetOutput(io.Discard)
	log.SetOutput(io.Discard)
	return func() {
		infoLog.SetOutput(oi)
		errorLog.SetOutput(oe)
		debugLog.SetOutput(od)
		log.SetOutput(ol)
	}
}

func TestVerif_C32(t *testing.T) {
	rec := kit.Open("C32")
	defer rec.Done()
	defer c32Quiet()()
	n := rec.N(260, 5000)
	// the repository identities of this run (shard images are cached per identity)
	pool := c32MakePool(rec.Rand(32))
	for _, ip := range pool {
		if c32Base(ip.Name, 0) < "compound-" {
			rec.Count("identities_sorting_before_compound", 1)
		} else {
			rec.Count("identities_sorting_after_compound", 1)
		}
		if ip.Twin != 0 {
			rec.Count("identities_sharing_their_name_with_another_id", 1)
		}
	}
	// compound templates: member lists that many directories share (a merge costs
	// as much as 40 cleanups); what happens to each member differs per directory
	tr := rec.Rand(34)
	var templates [][]c32Ident
	for len(templates) < 20 {
		var t []c32Ident
		names := map[string]bool{}
		for n := 2 + tr.IntN(3); len(t) < n; {
			ip := pool[tr.IntN(len(pool))]
			if !names[ip.Name] {
				names[ip.Name] = true
				t = append(t, ip)
			}
		}
		templates = append(templates, t)
	}
	jobs := make(chan int)
	var wg sync.WaitGroup
	for k := 0; k < c32Workers; k++ {
		wg.Add(1)
		go func() {
			defer wg.Done()
			for ci := range jobs {
				c32Case(rec, ci, pool, templates)
			}
		}()
	}
	for ci := 0; ci < n; ci++ {
		jobs <- ci
	}
	close(jobs)
	wg.Wait()
	c32ImgMu.Lock()
	rec.Count("shard_images_built", int64(len(c32Images)))
	rec.Count("compound_images_built", int64(len(c32Compounds)))
	c32ImgMu.Unlock()
}

var c32Steps = []time.Duration{0, time.Minute, time.Hour, time.Hour, 6 * time.Hour, 6 * time.Hour, 23 * time.Hour, 24 * time.Hour, 24*time.Hour + time.Second, 25 * time.Hour, 49 * time.Hour}

func c32Case(rec *kit.Rec, ci int, pool []c32Ident, templates [][]c32Ident) {
	r := rec.Rand(uint64(3200000 + ci))
	dir := filepath.Join(rec.Work, fmt.Sprintf("c%06d", ci))
	w := &c32World{r: r, pool: pool, templates: templates, dir: filepath.Join(dir, "index"), scratch: filepath.Join(dir, "scratch"),
		feat: map[string]bool{}, expDocs: map[string]map[uint32][]string{}, born: map[string]time.Time{}, usedIDs: map[uint32]bool{},
		ver: map[uint32]int{}, idxNames: map[string]bool{}, trashNames: map[string]bool{}}
	w.trash = filepath.Join(w.dir, ".trash")
	w.now0 = time.Date(2024, 5, 1, 12, 0, 0, 0, time.UTC).Add(time.Duration(r.IntN(1e6)) * time.Second)
	defer os.RemoveAll(dir)
	for _, d := range []string{w.dir, w.scratch} {
		if err := os.MkdirAll(d, 0o755); err != nil {
			rec.Violation("harness/build", err.Error(), nil)
			return
		}
	}
	if r.IntN(6) != 0 {
		_ = os.MkdirAll(w.trash, 0o755)
	}
	if err := w.generate(); err != nil {
		rec.Violation("harness/build", err.Error(), map[string]any{"case": ci, "recipe": w.recipe})
		return
	}
	merging := r.IntN(2) == 0
	rounds := 1 + r.IntN(8)

	// the assignment
	p := []float64{0, .25, .25, .5, .5, .5, .5, .75, .75, .75, 1}[r.IntN(11)]
	assigned := map[uint32]bool{}
	for _, rp := range w.repos {
		if r.Float64() < p || (rp.Kind == "absent" && r.IntN(2) == 0) {
			assigned[rp.ID] = true
		}
	}
	for k := r.IntN(3); k > 0; k-- {
		assigned[uint32(100000+r.IntN(1000))] = true // never seen by this server
	}
	rec.Count("dirs", 1)
	if merging {
		rec.Count("dirs_shard_merging_on", 1)
	} else {
		rec.Count("dirs_shard_merging_off", 1)
	}
	counted := map[string]bool{}

	now := w.now0
	var history []any
	var last *c32Snap // snapshot after the previous round, valid while the directory was not touched
	badRounds := 0
	for k := 0; k < rounds; k++ {
		var acts []string
		if k > 0 {
			now = now.Add(c32Steps[r.IntN(len(c32Steps))])
			var touched bool
			acts, touched = w.evolve(k, now, assigned, last, rec)
			if touched {
				last = nil
			}
		}
		var feats []string
		for f := range w.feat {
			feats = append(feats, f)
			if !counted[f] {
				counted[f] = true
				rec.Count("dirs_with_"+f, 1)
				rec.Seen("dir_features", f)
			}
		}
		sort.Strings(feats)
		ids := c32SortedIDs(assigned)
		r.Shuffle(len(ids), func(i, j int) { ids[i], ids[j] = ids[j], ids[i] })

		B := last
		if B == nil {
			B = w.snap()
		}
		msg, stack, panicked := kit.Guard(func() { cleanup(w.dir, ids, now, merging) })
		A := w.snap()
		w.observeTrash(B, A, now)
		step := map[string]any{"round": k, "now": now.UTC().Format(time.RFC3339Nano), "assigned": c32SortedIDs(assigned), "assigned_in_call_order": ids, "shardMerging": merging,
			"before": B.listing(), "after": A.listing()}
		if len(acts) > 0 {
			step["between_rounds"] = acts
		}
		history = append(history, step)
		witness := func() any {
			return map[string]any{"case": ci, "now0": w.now0.UTC().Format(time.RFC3339Nano), "recipe": w.recipe, "rounds": history,
				"replay": "build the directory from recipe (mtimes relative to now0), then per round: apply between_rounds, call cleanup(dir, assigned, now, shardMerging)"}
		}
		if panicked {
			rec.Violation("panic/"+kit.PanicSite(stack)+"/"+kit.MsgClass(msg), msg+"\n"+stack, witness())
			return
		}
		j := c32Judge(B, A, assigned, now, merging)
		findings := j.findings
		findings = append(findings, w.searchShards(B, A)...)
		if len(findings) == 0 && (k == rounds-1 || r.IntN(2) == 0) {
			// (4) a second identical cleanup (same assignment, same now) is judged by
			// the same clauses and must change nothing (checked after the last round
			// of a directory and after every other round on average).
			_, _, _ = kit.Guard(func() { cleanup(w.dir, ids, now, merging) })
			A2 := w.snap()
			w.observeTrash(A, A2, now)
			l1, l2 := A.listing(), A2.listing()
			j2 := c32Judge(A, A2, assigned, now, merging)
			findings = append(findings, j2.findings...)
			if strings.Join(l1, "\n") != strings.Join(l2, "\n") {
				step["after_second_identical_cleanup"] = l2
				if ok, renamed := c32OnlyAssignedUntombstoned(B, A, A2, assigned); ok && renamed {
					rec.Count("second_cleanup_untombstones_renamed_assigned_repo", 1)
				} else if ok {
					rec.Count("second_cleanup_untombstones_assigned_repo", 1)
				} else if len(j2.findings) == 0 {
					findings = append(findings, c32Finding{"second identical cleanup changes the directory", c32Diff(l1, l2)})
				}
			} else {
				rec.Count("idempotence_checked", 1)
			}
			A = A2
		}
		last = A
		if len(findings) == 0 && k == rounds-1 {
			findings = append(findings, w.searchDir(A)...)
			rec.Count("directory_searcher_checked", 1)
		}
		var evs []string
		for e, n := range j.ev {
			rec.Count("ev_"+e, int64(n))
			rec.Seen("events", e)
			evs = append(evs, e)
		}
		sort.Strings(evs)
		rec.Count("rounds", 1)
		rec.Max("max_rounds_per_dir", int64(k+1))
		rec.Max("max_shard_files_in_dir", int64(len(B.Index)+len(B.Trash)))
		nontrivial := j.keepObl > 0 && (j.removeObl > 0 || j.trashJudged > 0)
		key := fmt.Sprintf("m=%v|ev=%s|feat=%s", merging, strings.Join(evs, ","), strings.Join(feats, ","))
		rec.Case(key, nontrivial, func() any {
			return map[string]any{"case": ci, "round": k, "shardMerging": merging, "events": j.ev, "dir_features": feats,
				"assigned": c32SortedIDs(assigned), "before": B.listing(), "after": A.listing()}
		})
		for _, f := range findings {
			rec.Count("finding: "+f.sig, 1)
			rec.Violation(f.sig, f.what, witness())
			if strings.HasPrefix(f.sig, "harness/") {
				return
			}
		}
		if len(findings) > 0 {
			// Every round is judged on its own pair of snapshots, so the history may go
			// on from whatever state the directory is in now; a directory that keeps
			// producing findings is given up.
			rec.Count("rounds_with_findings", 1)
			if badRounds++; badRounds >= 3 {
				return
			}
		}
	}
}

// observeTrash keeps the ground truth of when a file entered the trash: a file
// that was in the index before the cleanup and is in the trash afterwards was
// trashed at `now`. A trash entry whose mtime changed falls back to its mtime.
func (w *c32World) observeTrash(B, A *c32Snap, now time.Time) {
	for _, f := range A.Trash {
		key := c32BornKey(f)
		switch g := c32HasFile(B.Trash, f); {
		case g != nil && g.MTime.Equal(f.MTime):
			// stayed
		case g == nil && c32HasFile(B.Index, f) != nil:
			w.born[key] = now
			f.Born = now
		default:
			delete(w.born, key)
			f.Born = time.Time{}
		}
	}
}

// c32OnlyAssignedUntombstoned reports whether the only difference between A and A2
// is that assigned repositories went from tombstoned to alive in a compound shard
// (the statement puts no obligation on tombstone-only repositories, so cleanup
// may resurrect them whenever it likes). renamed says whether all of them were
// repositories whose shards disagreed on the name in B.
func c32OnlyAssignedUntombstoned(B, A, A2 *c32Snap, assigned map[uint32]bool) (ok, renamed bool) {
	renamed = true
	if len(A.Index) != len(A2.Index) {
		return false, false
	}
	patched := &c32Snap{Index: map[string]*c32File{}, Trash: A2.Trash, Other: A2.Other, TrashOther: A2.TrashOther}
	for b, f2 := range A2.Index {
		f1 := A.Index[b]
		if f1 == nil || len(f1.Ents) != len(f2.Ents) {
			return false, false
		}
		g := *f2
		g.Ents = append([]c32Ent(nil), f2.Ents...)
		for i := range g.Ents {
			e1 := f1.Ents[i]
			if e1.ID == g.Ents[i].ID && e1.Tomb && !g.Ents[i].Tomb && assigned[e1.ID] {
				g.Ents[i].Tomb = true
				g.Meta = f1.Meta
				if len(B.namesIdx[e1.ID]) < 2 {
					renamed = false
				}
			}
		}
		patched.Index[b] = &g
	}
	return strings.Join(A.listing(), "\n") == strings.Join(patched.listing(), "\n"), renamed
}

func c32Diff(a, b []string) string {
	am, bm := map[string]bool{}, map[string]bool{}
	for _, x := range a {
		am[x] = true
	}
	for _, x := range b {
		bm[x] = true
	}
	var out []string
	for _, x := range a {
		if !bm[x] {
			out = append(out, "- "+x)
		}
	}
	for _, x := range b {
		if !am[x] {
			out = append(out, "+ "+x)
		}
	}
	return strings.Join(out, "\n")
}
