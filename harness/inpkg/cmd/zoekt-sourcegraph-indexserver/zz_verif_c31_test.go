package main

// C31: index directory operations are mutually exclusive.
//
// Runtime monitor: an occupancy monitor made of atomics lives *inside* the
// callbacks handed to indexMutex.With / indexMutex.Global. It decides exactly
// the three clauses of the property:
//   (1) two With(r, ·) bodies for the same r never overlap,
//   (2) a Global body never overlaps any other body (With or Global),
//   (3) With returns true iff its body ran.
// Nothing else is required (no fairness / liveness / "skip only when busy").
//
// Soundness of the monitor: every body increments its occupancy counters as its
// first action and decrements them as its last; both sides look at the other
// side's counter after their own increment and again before their own decrement
// (sequentially consistent atomics). If two body intervals intersect, the one
// that entered second sees the first at entry, or the first sees the second at
// exit, so no overlap is missed; if the lock excludes them the counters are 0 and
// nothing can fire.

import (
	"fmt"
	"runtime"
	"sync"
	"sync/atomic"
	"testing"

	kit "github.com/sourcegraph/zoekt/internal/verifkit"
)

const zz_verif_c31MaxRepos = 3

type zz_verif_c31Monitor struct {
	inRepo   [zz_verif_c31MaxRepos]atomic.Int32 // bodies inside per repo
	inWith   atomic.Int32                       // With bodies inside (all repos)
	inGlobal atomic.Int32                       // Global bodies inside

	// evidence
	maxWith     atomic.Int32 // max simultaneously running With bodies (distinct repos when (1) holds)
	withRan     atomic.Int64
	withSkipped atomic.Int64
	globalRan   atomic.Int64

	// violations (first witness of each kind)
	mu   sync.Mutex
	viol map[string]string
}

func (m *zz_verif_c31Monitor) fire(sig, what string) {
	m.mu.Lock()
	if m.viol == nil {
		m.viol = map[string]string{}
	}
	if _, ok := m.viol[sig]; !ok {
		m.viol[sig] = what
	}
	m.mu.Unlock()
}

// dwell keeps the body open for a short, schedule-perturbing moment.
func zz_verif_c31Dwell(yields, spins int) {
	for i := 0; i < yields; i++ {
		runtime.Gosched()
	}
	x := 0
	for i := 0; i < spins; i++ {
		x += i
	}
	if x == -1 {
		runtime.Gosched()
	}
}

func (m *zz_verif_c31Monitor) withBody(repo int, yields, spins int) {
	if n := m.inRepo[repo].Add(1); n != 1 {
		m.fire("overlap/with-with-same-repo", fmt.Sprintf("%d With bodies for the same repository inside at once", n))
	}
	w := m.inWith.Add(1)
	for {
		old := m.maxWith.Load()
		if w <= old || m.maxWith.CompareAndSwap(old, w) {
			break
		}
	}
	if g := m.inGlobal.Load(); g != 0 {
		m.fire("overlap/with-during-global", "a With body was entered while a Global body was inside")
	}
	zz_verif_c31Dwell(yields, spins)
	if g := m.inGlobal.Load(); g != 0 {
		m.fire("overlap/global-during-with", "a Global body was inside when a With body was about to leave")
	}
	m.inWith.Add(-1)
	m.inRepo[repo].Add(-1)
}

func (m *zz_verif_c31Monitor) globalBody(yields, spins int) {
	if g := m.inGlobal.Add(1); g != 1 {
		m.fire("overlap/global-global", fmt.Sprintf("%d Global bodies inside at once", g))
	}
	if w := m.inWith.Load(); w != 0 {
		m.fire("overlap/global-during-with", fmt.Sprintf("a Global body was entered while %d With bodies were inside", w))
	}
	zz_verif_c31Dwell(yields, spins)
	if w := m.inWith.Load(); w != 0 {
		m.fire("overlap/with-during-global", fmt.Sprintf("%d With bodies were inside when a Global body was about to leave", w))
	}
	m.inGlobal.Add(-1)
}

type zz_verif_c31Op struct {
	Global bool `json:"global,omitempty"`
	Repo   int  `json:"repo"`
	Yields int  `json:"yields"`
	Spins  int  `json:"spins"`
}

type zz_verif_c31Run struct {
	Goroutines int                `json:"goroutines"`
	Repos      int                `json:"repos"`
	Plan       [][]zz_verif_c31Op `json:"plan"` // per goroutine
}

func TestVerif_C31(t *testing.T) {
	rec := kit.Open("C31")
	defer rec.Done()
	runs := rec.N(3000, 300000)
	r := rec.Rand(31)
	names := [zz_verif_c31MaxRepos]string{"github.com/a/one", "github.com/a/two", "three"}

	for ri := 0; ri < runs; ri++ {
		// ---- plan (pure function of seed) ----
		run := zz_verif_c31Run{Repos: 1 + r.IntN(zz_verif_c31MaxRepos)}
		switch r.IntN(4) {
		case 0:
			run.Goroutines = 2 + r.IntN(3) // 2..4
		case 1:
			run.Goroutines = 2 + r.IntN(31) // 2..32
		default:
			run.Goroutines = 3 + r.IntN(10) // 3..12
		}
		pGlobal := []float64{0, 0.05, 0.15, 0.4}[r.IntN(4)]
		opsPer := 1 + r.IntN(4)
		nGlobalPlanned := 0
		for g := 0; g < run.Goroutines; g++ {
			var ops []zz_verif_c31Op
			for k := 0; k < opsPer; k++ {
				op := zz_verif_c31Op{Repo: r.IntN(run.Repos), Yields: r.IntN(4), Spins: r.IntN(200)}
				if r.Float64() < pGlobal {
					op.Global = true
					nGlobalPlanned++
				}
				ops = append(ops, op)
			}
			run.Plan = append(run.Plan, ops)
		}

		// ---- execute against a fresh indexMutex ----
		var mu indexMutex
		mon := &zz_verif_c31Monitor{}
		var start, done sync.WaitGroup
		start.Add(1)
		var retMismatch atomic.Int64
		for g := 0; g < run.Goroutines; g++ {
			done.Add(1)
			go func(ops []zz_verif_c31Op) {
				defer done.Done()
				start.Wait()
				for _, op := range ops {
					if op.Global {
						ran := false
						mu.Global(func() {
							ran = true
							mon.globalBody(op.Yields, op.Spins)
						})
						if !ran {
							mon.fire("global/body-not-run", "Global returned without running its body")
						}
						mon.globalRan.Add(1)
						continue
					}
					ran := false
					ret := mu.With(names[op.Repo], func() {
						ran = true
						mon.withBody(op.Repo, op.Yields, op.Spins)
					})
					switch {
					case ret && !ran:
						retMismatch.Add(1)
						mon.fire("with-return/true-but-body-did-not-run", "With returned true although its body did not run")
					case !ret && ran:
						retMismatch.Add(1)
						mon.fire("with-return/false-but-body-ran", "With returned false (skipped) although its body ran")
					}
					if ran {
						mon.withRan.Add(1)
					} else {
						mon.withSkipped.Add(1)
					}
				}
			}(run.Plan[g])
		}
		start.Done()
		done.Wait()

		// quiescent: everything must have left, and the running set must be empty
		if mon.inWith.Load() != 0 || mon.inGlobal.Load() != 0 {
			mon.fire("harness/occupancy-not-zero", "occupancy counters not zero at quiescence")
		}
		mu.runningMu.Lock()
		left := len(mu.running)
		mu.runningMu.Unlock()

		maxW, skipped, ranW, ranG := int64(mon.maxWith.Load()), mon.withSkipped.Load(), mon.withRan.Load(), mon.globalRan.Load()
		rec.Count("with_bodies_ran", ranW)
		rec.Count("with_skipped", skipped)
		rec.Count("global_bodies", ranG)
		rec.Max("max_concurrent_with_bodies", maxW)
		rec.Max("max_goroutines", int64(run.Goroutines))
		if maxW >= 2 {
			rec.Count("runs_with_concurrent_distinct_repo_bodies", 1)
		}
		if skipped > 0 {
			rec.Count("runs_with_a_skipped_with", 1)
		}
		if ranG > 0 && (maxW >= 1) {
			rec.Count("runs_mixing_global_and_with", 1)
		}
		if left != 0 {
			// not part of the statement (a stale entry only shows as a later spurious skip); evidence only
			rec.Count("stale_running_entries_at_quiescence", int64(left))
		}
		gb := "0"
		switch {
		case nGlobalPlanned >= 4:
			gb = "4+"
		case nGlobalPlanned >= 1:
			gb = "1-3"
		}
		sb := "0"
		switch {
		case skipped >= 8:
			sb = "8+"
		case skipped >= 2:
			sb = "2-7"
		case skipped == 1:
			sb = "1"
		}
		key := fmt.Sprintf("g=%d|repos=%d|ops=%d|globals=%s|skipped=%s|maxconc=%d", run.Goroutines, run.Repos, opsPer, gb, sb, maxW)
		rec.Case(key, skipped > 0 || maxW >= 2, func() any {
			return map[string]any{"goroutines": run.Goroutines, "repos": run.Repos, "ops_per_goroutine": opsPer,
				"globals_planned": nGlobalPlanned, "with_ran": ranW, "with_skipped": skipped, "max_concurrent_with_bodies": maxW}
		})

		mon.mu.Lock()
		for sig, what := range mon.viol {
			rec.Violation(sig, what, map[string]any{"run_index": ri, "run": run,
				"observed": map[string]any{"with_ran": ranW, "with_skipped": skipped, "global_ran": ranG, "max_concurrent_with_bodies": maxW},
				"replay":   "schedule dependent: re-run ./vcheck C31 with the same VERIF_SEED; the plan above is run index run_index of stream 31"})
		}
		mon.mu.Unlock()
	}
}
