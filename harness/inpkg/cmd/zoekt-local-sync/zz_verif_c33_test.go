package main

import (
	"fmt"
	"sort"
	"strings"
	"testing"

	kit "github.com/sourcegraph/zoekt/internal/verifkit"
)

// C33: zoekt-local-sync previews are side-effect free and faithful.
//
// (a) the index directory snapshot (names, modes, sizes, mtimes, content hashes,
//     including the directory's own mtime) is identical before and after a run
//     without -f, for sync and for remove;
// (b) what the preview announces ("Would remove <shard>", "Would index <repo>",
//     "Up to date <repo>") is compared with what the same command with -f then does
//     to the same state, read off the snapshot difference: which shard files
//     disappeared and which repositories' shards were (re)written.

func witnessRound(o *roundObs, extra map[string]any) any {
	w := map[string]any{"round": o, "replay": "recreate repositories_on_disk with git (files = HEAD content), bring the index to index_before by replaying the earlier rounds of this world (same seed), then run preview.args and force.args"}
	for k, v := range extra {
		w[k] = v
	}
	return w
}

func c33Sync(rec *kit.Rec, o *roundObs) {
	idx := o.Scratch + "/idx"
	ann := parseOutput(o.Preview.Stdout, idx, "Would remove", "Would index")
	prior := shardRepos(o.S0)
	key := fmt.Sprintf("sync|%s|prior=%d|remove=%d|index=%d|uptodate=%d|fail=%s|exit=%d/%d|flags=%d", opKinds(o.Ops), len(prior), len(ann.Remove), len(ann.Index),
		len(ann.UpToDate), o.Expect.Fail, o.Preview.Exit, o.Force.Exit, len(o.Flags))
	nontrivial := len(prior) > 0 && len(ann.Remove)+len(ann.Index) > 0
	rec.Case(key, nontrivial, func() any {
		return map[string]any{"kind": "sync", "ops": o.Ops, "shards_before": len(prior), "announced_removals": len(ann.Remove), "announced_indexings": setList(ann.Index), "announced_up_to_date": setList(ann.UpToDate)}
	})
	rec.Count("sync_previews", 1)
	rec.Count("announced_removals", int64(len(ann.Remove)))
	rec.Count("announced_indexings", int64(len(ann.Index)))
	rec.Count("announced_up_to_date", int64(len(ann.UpToDate)))
	if o.Preview.TimedOut || o.Force.TimedOut {
		rec.Count("inconclusive_timeouts", 1)
		return
	}
	if o.Preview.crashed() || o.Force.crashed() {
		rec.Count("tool_crashes", 1)
		rec.Note("tool-crash", map[string]any{"preview": o.Preview.crashClass(), "force": o.Force.crashClass()})
	}
	// (a) side-effect freedom
	rm, ad, ch := snapDiff(o.S0, o.S1, true, nil)
	if len(rm)+len(ad)+len(ch) > 0 {
		kind := "changed"
		if len(rm) > 0 {
			kind = "removed"
		} else if len(ad) > 0 {
			kind = "created"
		}
		rec.Violation("c33/sync/preview "+kind+" something in the index directory",
			fmt.Sprintf("sync without -f: removed=%q created=%q changed=%q", rm, ad, ch), witnessRound(o, map[string]any{"removed": rm, "created": ad, "changed": ch}))
	} else {
		rec.Count("sync_previews_side_effect_free", 1)
	}
	// (b) faithfulness
	if (o.Preview.Exit == 0) != (o.Force.Exit == 0) {
		rec.Violation("c33/sync/preview and -f disagree on success",
			fmt.Sprintf("preview exit %d (%s), -f exit %d (%s)", o.Preview.Exit, lastLine(o.Preview.Stderr, o.Scratch), o.Force.Exit, lastLine(o.Force.Stderr, o.Scratch)), witnessRound(o, nil))
		return
	}
	if o.Preview.Exit != 0 {
		rec.Count("sync_failing_pairs", 1)
		rec.Seen("sync_failure_classes", msgClass(lastLine(o.Preview.Stderr, o.Scratch)))
	}
	removed, added, changed := snapDiff(o.S0, o.S2, false, ignoreLock)
	reindexed := map[string]bool{}
	for _, p := range append(append([]string{}, added...), changed...) {
		if strings.HasSuffix(p, ".zoekt") {
			reindexed[o.S2.Entries[p].Repo] = true
		}
	}
	rec.Count("performed_reindexings", int64(len(reindexed)))
	var problems []string
	sig := ""
	setSig := func(s string) {
		if sig == "" || s < sig {
			sig = s
		}
	}
	for n := range reindexed {
		if ann.Index[n] {
			continue
		}
		pruned := false
		for p := range ann.Remove {
			if o.S0.Entries[p].Repo == n {
				pruned = true
			}
		}
		switch {
		case ann.UpToDate[n] && pruned:
			setSig("c33/sync/reindexed without announcement/announced up to date while its shard is announced for removal")
		case ann.UpToDate[n]:
			setSig("c33/sync/reindexed without announcement/announced up to date")
		default:
			setSig("c33/sync/reindexed without announcement/not mentioned")
		}
		problems = append(problems, fmt.Sprintf("-f (re)wrote the shards of %q, the preview did not announce it (up to date announced: %v, its old shard announced for removal: %v)", n, ann.UpToDate[n], pruned))
	}
	for n := range ann.Index {
		if !reindexed[n] {
			setSig("c33/sync/announced indexing not performed")
			problems = append(problems, fmt.Sprintf("preview announced indexing of %q, -f left its shards as they were", n))
		}
	}
	for p := range ann.Remove {
		e2, still := o.S2.Entries[p]
		if !still {
			continue
		}
		e0 := o.S0.Entries[p]
		if e0.Hash == e2.Hash && e0.MTime == e2.MTime {
			setSig("c33/sync/announced removal not performed")
			problems = append(problems, fmt.Sprintf("preview announced removal of %s, -f kept it", p))
		}
	}
	nRemoved := 0
	for _, p := range removed {
		switch {
		case strings.HasSuffix(p, ".zoekt"):
			nRemoved++
			if _, ok := ann.Remove[p]; !ok && !ann.Index[o.S0.Entries[p].Repo] {
				setSig("c33/sync/removed without announcement")
				problems = append(problems, fmt.Sprintf("-f removed %s (repository %q), the preview did not announce it", p, o.S0.Entries[p].Repo))
			}
		case strings.HasSuffix(p, ".zoekt.meta"):
		default:
			setSig("c33/sync/-f touched an unannounced file")
			problems = append(problems, "-f removed "+p)
		}
	}
	rec.Count("performed_removals", int64(nRemoved))
	for _, p := range append(append([]string{}, added...), changed...) {
		if !strings.HasSuffix(p, ".zoekt") && !strings.HasSuffix(p, ".zoekt.meta") {
			setSig("c33/sync/-f touched an unannounced file")
			problems = append(problems, "-f created or changed "+p)
		}
	}
	if sig != "" {
		sort.Strings(problems)
		rec.Violation(sig, strings.Join(problems, "; "), witnessRound(o, map[string]any{"problems": problems, "announced": map[string]any{"remove": ann.Remove, "index": setList(ann.Index), "up_to_date": setList(ann.UpToDate)},
			"performed": map[string]any{"removed_files": removed, "created_files": added, "changed_files": changed, "reindexed_repositories": setList(reindexed)}}))
	} else {
		rec.Count("sync_pairs_faithful", 1)
	}
}

func c33Remove(rec *kit.Rec, o *roundObs) {
	rm := o.Remove
	idx := o.Scratch + "/idx"
	ann := parseOutput(rm.Preview.Stdout, idx, "Would remove", "Would index")
	prior := shardRepos(rm.R0)
	key := fmt.Sprintf("remove|%s|prior=%d|announced=%d|exit=%d/%d|round=%d", rm.Kind, len(prior), len(ann.Remove), rm.Preview.Exit, rm.Force.Exit, o.Round)
	rec.Case(key, len(prior) >= 2 && len(ann.Remove) > 0, func() any {
		return map[string]any{"kind": "remove", "selector_kind": rm.Kind, "repositories_before": len(prior), "announced_removals": len(ann.Remove)}
	})
	rec.Count("remove_previews", 1)
	rec.Seen("remove_selector_kinds", rm.Kind)
	if rm.Preview.TimedOut || rm.Force.TimedOut {
		rec.Count("inconclusive_timeouts", 1)
		return
	}
	r, a, c := snapDiff(rm.R0, rm.R1, true, nil)
	if len(r)+len(a)+len(c) > 0 {
		kind := "changed"
		if len(r) > 0 {
			kind = "removed"
		} else if len(a) > 0 {
			kind = "created"
		}
		rec.Violation("c33/remove/preview "+kind+" something in the index directory",
			fmt.Sprintf("remove without -f: removed=%q created=%q changed=%q", r, a, c), witnessRound(o, map[string]any{"removed": r, "created": a, "changed": c}))
	} else {
		rec.Count("remove_previews_side_effect_free", 1)
	}
	if (rm.Preview.Exit == 0) != (rm.Force.Exit == 0) {
		rec.Violation("c33/remove/preview and -f disagree on success",
			fmt.Sprintf("preview exit %d (%s), -f exit %d (%s)", rm.Preview.Exit, lastLine(rm.Preview.Stderr, o.Scratch), rm.Force.Exit, lastLine(rm.Force.Stderr, o.Scratch)), witnessRound(o, nil))
		return
	}
	removed, added, changed := snapDiff(rm.R0, rm.R2, false, ignoreLock)
	var problems []string
	sig := ""
	gone := map[string]bool{}
	for _, p := range removed {
		if strings.HasSuffix(p, ".zoekt") {
			gone[p] = true
			if _, ok := ann.Remove[p]; !ok {
				sig = "c33/remove/removed without announcement"
				problems = append(problems, "remove -f deleted "+p+" which the preview did not announce")
			}
		} else if !strings.HasSuffix(p, ".zoekt.meta") {
			sig = "c33/remove/-f touched an unannounced file"
			problems = append(problems, "remove -f deleted "+p)
		}
	}
	for p := range ann.Remove {
		if !gone[p] {
			sig = "c33/remove/announced removal not performed"
			problems = append(problems, "preview announced removal of "+p+", remove -f kept it")
		}
	}
	if len(added)+len(changed) > 0 {
		sig = "c33/remove/-f touched an unannounced file"
		problems = append(problems, fmt.Sprintf("remove -f created %q changed %q", added, changed))
	}
	rec.Count("remove_performed_removals", int64(len(gone)))
	if sig != "" {
		sort.Strings(problems)
		rec.Violation(sig, strings.Join(problems, "; "), witnessRound(o, map[string]any{"problems": problems, "announced": ann.Remove, "removed_files": removed}))
	} else {
		rec.Count("remove_pairs_faithful", 1)
	}
}

func TestVerif_C33(t *testing.T) {
	rec := kit.Open("C33")
	defer rec.Done()
	if !haveBin("zoekt-local-sync") {
		rec.Note("broken", "missing binary "+binPath("zoekt-local-sync"))
		return
	}
	obs := runWorlds(rec, rec.N(30, 200), 5)
	for _, o := range obs {
		if o.Harness != "" {
			rec.Count("harness_failures", 1)
			rec.Note("harness-failure", fmt.Sprintf("world %d round %d: %s", o.World, o.Round, clip(o.Harness, 1500)))
			continue
		}
		for _, op := range o.Ops {
			if i := strings.Index(op, "("); i > 0 {
				rec.Seen("ops", op[:i])
			}
		}
		rec.Count("wall_ms_in_git_cli", o.MsGit)
		if o.Binary {
			rec.Count("wall_ms_in_tool_binary", o.MsTool)
		} else {
			rec.Count("wall_ms_in_tool_in_process", o.MsTool)
		}
		if o.Binary {
			rec.Count("states_via_built_binary", 1)
		} else {
			rec.Count("states_via_execute_in_process", 1)
		}
		c33Sync(rec, o)
		if o.Remove != nil {
			c33Remove(rec, o)
		}
	}
}
