package main

import (
	"fmt"
	"path/filepath"
	"sort"
	"strings"
	"testing"

	kit "github.com/sourcegraph/zoekt/internal/verifkit"
)

// C34: zoekt-local-sync makes the index match the discovered repositories.
//
//   * after a successful `-f`: the repositories alive in the index directory (listed
//     through the directory searcher, and per shard file through its metadata) are
//     exactly the generator's Git repositories discovered under the given roots,
//     each under its root-relative name, at the commit `git rev-parse HEAD` reports,
//     with the files of that commit, and no other shard is left;
//   * two discovered repositories with the same name: the command fails and the
//     index directory snapshot is unchanged (the lock file aside);
//   * `remove -f` deletes exactly the shard files of the selected repository.

func c34Sync(rec *kit.Rec, o *roundObs) {
	prior := shardRepos(o.S0)
	exp := o.Expect
	// did this round demand a change of the index?
	needs := len(prior) != len(exp.Repos)
	for n := range exp.Repos {
		if prior[n] == 0 {
			needs = true
		}
	}
	_, ad0, ch0 := snapDiff(o.S0, o.S2, false, ignoreLock)
	if len(ad0)+len(ch0) > 0 {
		needs = true
	}
	key := fmt.Sprintf("sync|%s|prior=%d|want=%d|fail=%s|exit=%d|flags=%d|round=%d", opKinds(o.Ops), len(prior), len(exp.Repos), exp.Fail, o.Force.Exit, len(o.Flags), o.Round)
	rec.Count("sync_runs", 1)
	if o.Force.TimedOut {
		rec.Count("inconclusive_timeouts", 1)
		rec.Case(key, false, nil)
		return
	}
	if o.Force.crashed() {
		rec.Count("tool_crashes", 1)
		rec.Note("tool-crash", o.Force.crashClass())
	}
	sample := func() any {
		return map[string]any{"kind": "sync", "ops": o.Ops, "repositories_indexed_before": len(prior), "repositories_expected": sortedKeys(exp.Repos), "expected_failure": exp.Fail, "exit": o.Force.Exit}
	}
	switch {
	case exp.Fail == "dup-name":
		rec.Case(key, len(prior) > 0, sample)
		rec.Count("duplicate_name_rounds", 1)
		if o.Force.Exit == 0 {
			rec.Violation("c34/duplicate names/accepted", "two discovered repositories get the same name and `-f` exited 0: "+clip(o.Force.Stdout, 400), witnessRound(o, nil))
			return
		}
		rm, ad, ch := snapDiff(o.S0, o.S2, false, ignoreLock)
		if len(rm)+len(ad)+len(ch) > 0 {
			rec.Violation("c34/duplicate names/index changed before failing", fmt.Sprintf("removed=%q created=%q changed=%q; error: %s", rm, ad, ch, lastLine(o.Force.Stderr, o.Scratch)),
				witnessRound(o, map[string]any{"removed": rm, "created": ad, "changed": ch}))
			return
		}
		rec.Count("duplicate_name_rounds_rejected_unchanged", 1)
		return
	case exp.Fail != "":
		// overlapping roots / the same root twice: one Git repository is discovered twice.
		// zoekt-local-sync refuses such a root set, and the statement only speaks about
		// successful runs. Should -f succeed, "exactly one repository for each Git
		// repository" still has to hold: no source may be indexed under two names.
		rec.Count("other_expected_failure_rounds", 1)
		rec.Seen("other_failures", exp.Fail+fmt.Sprintf(" exit=%d", o.Force.Exit))
		if o.Force.Exit != 0 || o.View == nil {
			rec.Case(key, false, nil)
			return
		}
		rec.Case(key, true, sample)
		bySource := map[string][]string{}
		for n, r := range o.View.Repos {
			if r.Source != "" {
				bySource[r.Source] = append(bySource[r.Source], n)
			}
		}
		for src, names := range bySource {
			if len(names) > 1 {
				sort.Strings(names)
				rec.Violation("c34/sync/one git repository indexed under several names",
					fmt.Sprintf("`-f` succeeded for a root set in which %s is discovered more than once (%s) and the index now holds it as %q", src, exp.Fail, names),
					witnessRound(o, map[string]any{"source": src, "names": names}))
				return
			}
		}
		return
	case o.Force.Exit != 0:
		// the statement starts from a successful run
		rec.Case(key, false, nil)
		rec.Count("unsuccessful_force_runs", 1)
		cls := msgClass(lastLine(o.Force.Stderr, o.Scratch))
		rec.Seen("unsuccessful_force_classes", fmt.Sprintf("unindexable=%d: %s", len(exp.Unindexable), cls))
		if len(exp.Unindexable) == 0 {
			rec.Count("unsuccessful_force_runs_unexplained", 1)
			rec.Note("unexplained-failure", map[string]any{"world": o.World, "round": o.Round, "ops": o.Ops, "stderr": clip(o.Force.Stderr, 800)})
		}
		return
	}
	rec.Case(key, needs && len(exp.Repos) > 0, sample)
	rec.Count("successful_force_runs", 1)
	rec.Count("repositories_checked", int64(len(exp.Repos)))
	if o.View == nil {
		rec.Violation("c34/sync/index unreadable after -f", o.ViewErr, witnessRound(o, nil))
		return
	}
	var problems []string
	sig := ""
	setSig := func(s string) {
		if sig == "" || s < sig {
			sig = s
		}
	}
	for n, e := range exp.Repos {
		r, ok := o.View.Repos[n]
		if !ok {
			setSig("c34/sync/repository missing from the index")
			problems = append(problems, fmt.Sprintf("discovered repository %q (%s) is not in the index", n, e.Source))
			continue
		}
		if len(r.Branches) != 1 || r.Branches[0].Version != e.Head {
			setSig("c34/sync/stale version")
			problems = append(problems, fmt.Sprintf("%q is indexed at %v, HEAD is %s", n, r.Branches, e.Head))
		}
		// files of HEAD
		want := map[docKey]int{}
		for f, c := range e.Files {
			want[docKey{n, f, c}]++
		}
		for k, c := range want {
			if o.View.Docs[k] != c {
				setSig("c34/sync/content differs from HEAD")
				problems = append(problems, fmt.Sprintf("%q: file %q of HEAD is not indexed with its content", n, k.Name))
			}
		}
		for k := range o.View.Docs {
			if k.Repo == n && want[k] == 0 {
				setSig("c34/sync/content differs from HEAD")
				problems = append(problems, fmt.Sprintf("%q: indexed document %q is not a file of HEAD (or has other content)", n, k.Name))
			}
		}
	}
	for n := range o.View.Repos {
		if _, ok := exp.Repos[n]; !ok {
			setSig("c34/sync/leftover repository")
			problems = append(problems, fmt.Sprintf("index holds %q (source %s) which is not a discovered repository", n, o.View.Repos[n].Source))
		}
	}
	// shard files: each belongs to exactly one expected repository, from its source
	sources := map[string]map[string]bool{}
	for p, e := range o.S2.Entries {
		if !strings.HasSuffix(p, ".zoekt") {
			continue
		}
		if sources[e.Repo] == nil {
			sources[e.Repo] = map[string]bool{}
		}
		sources[e.Repo][e.Source] = true
		x, ok := exp.Repos[e.Repo]
		switch {
		case !ok:
			setSig("c34/sync/leftover shard")
			problems = append(problems, fmt.Sprintf("shard %s of %q (source %s) is left in the index", p, e.Repo, e.Source))
		case filepath.Clean(e.Source) != x.Source:
			setSig("c34/sync/shard from another source")
			problems = append(problems, fmt.Sprintf("shard %s of %q comes from %s, the discovered repository is %s", p, e.Repo, e.Source, x.Source))
		}
	}
	if sig != "" {
		sort.Strings(problems)
		if len(problems) > 10 {
			problems = problems[:10]
		}
		rec.Violation(sig, strings.Join(problems, "; "), witnessRound(o, map[string]any{"problems": problems, "indexed_repositories": sortedKeys(o.View.Repos)}))
	} else {
		rec.Count("successful_force_runs_converged", 1)
	}
}

// resolveSelectors is the oracle's reading of `remove <name-or-source>`: a selector
// names the repository with that exact name, otherwise the one whose source is that
// path (a trailing /.git dropped, relative paths taken from the working directory).
func resolveSelectors(s snapshot, sels []string, cwd string) (names map[string]bool, valid bool) {
	type recd struct{ name, source string }
	recs := map[recd]bool{}
	for p, e := range s.Entries {
		if strings.HasSuffix(p, ".zoekt") {
			recs[recd{e.Repo, filepath.Clean(e.Source)}] = true
		}
	}
	names = map[string]bool{}
	valid = true
	for _, sel := range sels {
		var hit []recd
		for r := range recs {
			if r.name == sel {
				hit = append(hit, r)
			}
		}
		if len(hit) == 0 {
			p := sel
			if !filepath.IsAbs(p) {
				p = filepath.Join(cwd, p)
			}
			p = filepath.Clean(p)
			if filepath.Base(p) == ".git" {
				p = filepath.Dir(p)
			}
			for r := range recs {
				if r.source == p {
					hit = append(hit, r)
				}
			}
		}
		if len(hit) != 1 {
			valid = false
			continue
		}
		names[hit[0].name] = true
	}
	return
}

func c34Remove(rec *kit.Rec, o *roundObs) {
	rm := o.Remove
	prior := shardRepos(rm.R0)
	names, valid := resolveSelectors(rm.R0, rm.Selectors, o.Scratch)
	key := fmt.Sprintf("remove|%s|prior=%d|selected=%d|valid=%v|exit=%d|round=%d", rm.Kind, len(prior), len(names), valid, rm.Force.Exit, o.Round)
	rec.Count("remove_runs", 1)
	rec.Seen("remove_selector_kinds", rm.Kind)
	if rm.Force.TimedOut {
		rec.Count("inconclusive_timeouts", 1)
		rec.Case(key, false, nil)
		return
	}
	rec.Case(key, valid && rm.Force.Exit == 0 && len(prior) >= 2, func() any {
		return map[string]any{"kind": "remove", "selector_kind": rm.Kind, "selectors": len(rm.Selectors), "repositories_before": len(prior), "selected": setList(names)}
	})
	removed, added, changed := snapDiff(rm.R0, rm.R2, false, ignoreLock)
	var problems []string
	sig := ""
	isSel := func(p string) bool {
		base := strings.TrimSuffix(p, ".meta")
		e, ok := rm.R0.Entries[base]
		return ok && strings.HasSuffix(base, ".zoekt") && names[e.Repo]
	}
	for _, p := range removed {
		if !isSel(p) || !valid {
			sig = "c34/remove/deleted a file that is not a shard of the selected repository"
			problems = append(problems, fmt.Sprintf("remove -f %q deleted %s (repository %q)", rm.Selectors, p, rm.R0.Entries[strings.TrimSuffix(p, ".meta")].Repo))
		}
	}
	if len(added)+len(changed) > 0 {
		sig = "c34/remove/changed other files"
		problems = append(problems, fmt.Sprintf("remove -f created %q changed %q", added, changed))
	}
	if rm.Force.Exit == 0 && valid {
		rec.Count("successful_remove_runs", 1)
		for p := range rm.R0.Entries {
			if isSel(p) {
				if _, still := rm.R2.Entries[p]; still {
					sig = "c34/remove/kept a shard of the selected repository"
					problems = append(problems, fmt.Sprintf("remove -f %q kept %s", rm.Selectors, p))
				}
			}
		}
	} else if rm.Force.Exit == 0 && !valid {
		rec.Count("remove_runs_succeeding_with_unmatched_selector", 1)
	} else {
		rec.Count("failing_remove_runs", 1)
		rec.Seen("remove_failure_classes", fmt.Sprintf("valid=%v: %s", valid, msgClass(lastLine(rm.Force.Stderr, o.Scratch))))
	}
	if sig != "" {
		sort.Strings(problems)
		rec.Violation(sig, strings.Join(problems, "; "), witnessRound(o, map[string]any{"problems": problems, "selected_repositories": setList(names), "removed_files": removed}))
	} else {
		rec.Count("remove_runs_exact", 1)
	}
}

func TestVerif_C34(t *testing.T) {
	rec := kit.Open("C34")
	defer rec.Done()
	if !haveBin("zoekt-local-sync") {
		rec.Note("broken", "missing binary "+binPath("zoekt-local-sync"))
		return
	}
	obs := runWorlds(rec, rec.N(30, 200), 5)
	for _, o := range obs {
		if o.Harness != "" {
			rec.Count("harness_failures", 1)
			rec.Note("harness-failure", fmt.Sprintf("world %d round %d: %s", o.World, o.Round, clip(o.Harness, 1500)))
			continue
		}
		for _, op := range o.Ops {
			if i := strings.Index(op, "("); i > 0 {
				rec.Seen("ops", op[:i])
			}
		}
		if o.Binary {
			rec.Count("states_via_built_binary", 1)
		} else {
			rec.Count("states_via_execute_in_process", 1)
		}
		for _, l := range o.Layout {
			kind := "worktree"
			if l.Bare {
				kind = "bare"
			}
			for _, rt := range []string{"r0", "r1", "r2.git"} {
				if l.Abs == filepath.Join(o.Scratch, rt) {
					kind += "-at-root"
				}
			}
			if strings.Contains(l.Abs, "/vendor/dep") {
				kind += "-nested-in-worktree"
			}
			rec.Seen("repository_kinds", kind)
		}
		c34Sync(rec, o)
		if o.Remove != nil {
			c34Remove(rec, o)
		}
	}
}
