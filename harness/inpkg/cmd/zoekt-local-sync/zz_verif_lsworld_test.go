package main

import (
	"bytes"
	"fmt"
	"io"
	"log"
	"math/rand/v2"
	"os"
	"os/exec"
	"path/filepath"
	"runtime/debug"
	"sort"
	"strconv"
	"strings"
	"time"

	"github.com/sourcegraph/zoekt"
	"github.com/sourcegraph/zoekt/index"
	kit "github.com/sourcegraph/zoekt/internal/verifkit"
)

// Shared workload of C33 and C34: "worlds" of root directories holding tiny Git
// repositories (made with the git CLI) that evolve over several rounds, one index
// directory per world, and the built zoekt-local-sync binary run as a child
// process: preview, then -f, then (sometimes) `remove` preview and `remove -f`.
// Every run is bracketed by snapshots of the index directory.

const lockName = ".zoekt-local-sync.lock"

type lsRepo struct {
	ID       int               `json:"id"`
	Abs      string            `json:"path"`
	Bare     bool              `json:"bare"`
	NoCommit bool              `json:"no_commit,omitempty"`
	Files    map[string]string `json:"files"`
	Commits  int               `json:"commits"`
	Head     string            `json:"head"` // `git rev-parse HEAD` after the last commit
	wt       string            // external work tree of a bare repository
}

type lsWorld struct {
	dir    string
	roots  []string // absolute, symlink-free
	idx    string
	repos  []*lsRepo
	nextID int
	r      *rand.Rand
	// per-world settings
	shardLimit int
	fileLimit  int
	selected   []int
	viaSymlink bool
	lastFail   string
	useBin     bool // run the built binary as a child process instead of calling execute in-process
	calls      int
	// wall-clock spent (evidence only, never an oracle)
	tGit, tTool, tSnap time.Duration
}

type expRepo struct {
	Name   string            `json:"name"`
	Source string            `json:"source"`
	Head   string            `json:"head"`
	Files  map[string]string `json:"files"`
}

type expectation struct {
	Fail  string             `json:"expected_failure,omitempty"` // dup-name | dup-source | dup-root
	Repos map[string]expRepo `json:"repositories"`
	// Unindexable: discovered repositories without any commit (sync reports an error for them)
	Unindexable []string `json:"unindexable,omitempty"`
}

type removeObs struct {
	Kind      string    `json:"selector_kind"`
	Selectors []string  `json:"selectors"`
	R0        snapshot  `json:"before"`
	R1        snapshot  `json:"after_preview"`
	R2        snapshot  `json:"after_force"`
	Preview   cmdResult `json:"preview"`
	Force     cmdResult `json:"force"`
}

type roundObs struct {
	World   int         `json:"world"`
	Round   int         `json:"round"`
	Ops     []string    `json:"ops"`
	Layout  []*lsRepo   `json:"repositories_on_disk"`
	Roots   []string    `json:"root_args"`
	Flags   []string    `json:"flags"`
	Expect  expectation `json:"expectation"`
	S0      snapshot    `json:"index_before"`
	S1      snapshot    `json:"index_after_preview"`
	S2      snapshot    `json:"index_after_force"`
	Preview cmdResult   `json:"preview"`
	Force   cmdResult   `json:"force"`
	View    *indexView  `json:"-"`
	ViewErr string      `json:"index_read_error,omitempty"`
	Remove  *removeObs  `json:"remove,omitempty"`
	Scratch string      `json:"scratch"`
	Binary  bool        `json:"via_built_binary"`
	MsGit   int64       `json:"-"`
	MsTool  int64       `json:"-"`
	MsSnap  int64       `json:"-"`
	Harness string      `json:"-"`
}

func gitEnv(home string) []string {
	return append(os.Environ(), "HOME="+home, "GIT_CONFIG_GLOBAL=/dev/null", "GIT_CONFIG_SYSTEM=/dev/null", "GIT_CONFIG_NOSYSTEM=1",
		"GIT_AUTHOR_NAME=V", "GIT_AUTHOR_EMAIL=v@example.com", "GIT_COMMITTER_NAME=V", "GIT_COMMITTER_EMAIL=v@example.com", "GIT_TERMINAL_PROMPT=0")
}

func (w *lsWorld) git(dir string, args ...string) (string, error) {
	t0 := time.Now()
	defer func() { w.tGit += time.Since(t0) }()
	cmd := exec.Command("git", args...)
	cmd.Dir = dir
	cmd.Env = gitEnv(w.dir)
	var out, eb bytes.Buffer
	cmd.Stdout = &out
	cmd.Stderr = &eb
	if err := cmd.Run(); err != nil {
		return "", fmt.Errorf("git %s (in %s): %v: %s", strings.Join(args, " "), dir, err, eb.String())
	}
	return strings.TrimSpace(out.String()), nil
}

var lsComps = []string{"app", "lib", "team", "svc", "x y", "ünï", "a.b", "core", "grp", "tool"}
var lsFiles = []string{"README.md", "main.go", "docs/guide.txt", "x y.txt", "lib/util.go"}

func under(root, p string) bool { return p == root || strings.HasPrefix(p, root+"/") }

func (w *lsWorld) occupied(p string) bool {
	_, err := os.Lstat(p)
	return err == nil
}

// writeAndCommit brings the repository's HEAD to its model Files.
func (w *lsWorld) writeAndCommit(rp *lsRepo) error {
	wt := rp.Abs
	gitArgs := []string{}
	if rp.Bare {
		wt = rp.wt
		gitArgs = []string{"--git-dir=" + rp.Abs, "--work-tree=" + wt}
	}
	var names []string
	for n, c := range rp.Files {
		p := filepath.Join(wt, filepath.FromSlash(n))
		if err := os.MkdirAll(filepath.Dir(p), 0o755); err != nil {
			return err
		}
		if err := os.WriteFile(p, []byte(c), 0o644); err != nil {
			return err
		}
		names = append(names, n)
	}
	sort.Strings(names)
	if _, err := w.git(wt, append(append(gitArgs, "add", "--"), names...)...); err != nil {
		return err
	}
	rp.Commits++
	if _, err := w.git(wt, append(gitArgs, "commit", "-q", "--allow-empty", "-m", fmt.Sprintf("commit %d", rp.Commits))...); err != nil {
		return err
	}
	h, err := w.git(rp.Abs, "rev-parse", "HEAD")
	rp.Head = h
	return err
}

func (w *lsWorld) newFiles(rp *lsRepo) {
	n := 1 + w.r.IntN(3)
	for i := 0; i < n; i++ {
		f := pick(w.r, lsFiles)
		rp.Files[f] = fmt.Sprintf("repository %d revision %d of %s\nshared line of text\n", rp.ID, rp.Commits+1, f)
	}
}

func (w *lsWorld) createRepo(abs string, bare, noCommit bool) (*lsRepo, error) {
	rp := &lsRepo{ID: w.nextID, Abs: abs, Bare: bare, NoCommit: noCommit, Files: map[string]string{}}
	w.nextID++
	if err := os.MkdirAll(filepath.Dir(abs), 0o755); err != nil {
		return nil, err
	}
	if bare {
		rp.wt = filepath.Join(w.dir, "wt", fmt.Sprint(rp.ID))
		if err := os.MkdirAll(rp.wt, 0o755); err != nil {
			return nil, err
		}
		if _, err := w.git(w.dir, "init", "-q", "--bare", "-b", "main", abs); err != nil {
			return nil, err
		}
	} else {
		if _, err := w.git(w.dir, "init", "-q", "-b", "main", abs); err != nil {
			return nil, err
		}
	}
	// most local clones have an origin: known code hosts, self-hosted hosts (for which
	// zoekt cannot derive URL templates), scp-like and odd URLs. The name of a
	// repository is its path below the root whatever the origin says.
	if k := w.r.IntN(8); k > 0 {
		origins := []string{
			"https://github.com/org/proj" + fmt.Sprint(rp.ID) + ".git",
			"https://git.example.com/group/project" + fmt.Sprint(rp.ID) + ".git",
			"git@gitlab.internal:team/x" + fmt.Sprint(rp.ID) + ".git",
			"https://gerrit.googlesource.com/gerrit",
			"ssh://git@bitbucket.org/ws/repo" + fmt.Sprint(rp.ID),
			"/srv/git/mirror" + fmt.Sprint(rp.ID) + ".git",
			"https://git.example.com/group/project-shared.git", // the same origin for several clones
		}
		if _, err := w.git(abs, "config", "remote.origin.url", origins[k-1]); err != nil {
			return nil, err
		}
	}
	if !noCommit {
		w.newFiles(rp)
		if err := w.writeAndCommit(rp); err != nil {
			return nil, err
		}
	}
	w.repos = append(w.repos, rp)
	return rp, nil
}

func (w *lsWorld) randomPath(bare bool) string {
	root := w.roots[w.r.IntN(3)]
	if w.r.IntN(14) == 0 {
		// the root itself; a bare repository is only recognisable when the directory ends in .git
		if !bare || strings.HasSuffix(root, ".git") {
			return root
		}
	}
	d := 1 + w.r.IntN(3)
	p := root
	if root == w.roots[0] && w.r.IntN(4) == 0 {
		// below the directory that is itself selectable as a root (roots[3]): the
		// repository is then discovered through two overlapping roots
		p = w.roots[3]
	}
	for i := 0; i < d; i++ {
		p = filepath.Join(p, pick(w.r, lsComps))
	}
	if bare || w.r.IntN(15) == 0 {
		p += ".git"
	}
	return p
}

// blocked: creating a repository at p would put it inside / around another one in a
// way the generator does not model (inside a bare repository's directory).
func (w *lsWorld) blocked(p string) bool {
	for _, q := range w.repos {
		if q.Bare && under(q.Abs, p) && p != q.Abs {
			return true
		}
		if q.Abs == p {
			return true
		}
	}
	return w.occupied(filepath.Join(p, ".git")) || (w.occupied(p) && !isEmptyDir(p) && p != w.roots[0] && p != w.roots[1] && p != w.roots[2])
}

func isEmptyDir(p string) bool {
	es, err := os.ReadDir(p)
	return err == nil && len(es) == 0
}

func (w *lsWorld) opAdd() (string, error) {
	bare := w.r.IntN(3) == 0
	var p string
	if w.r.IntN(9) == 0 {
		// nested inside the work tree of a non-bare repository
		var cands []*lsRepo
		for _, q := range w.repos {
			if !q.Bare {
				cands = append(cands, q)
			}
		}
		if len(cands) > 0 {
			p = filepath.Join(pick(w.r, cands).Abs, "vendor", "dep")
			if bare {
				p += ".git"
			}
		}
	}
	if p == "" {
		p = w.randomPath(bare)
	}
	if w.blocked(p) {
		return "add(skipped: occupied)", nil
	}
	isRoot := false
	for _, rt := range w.roots {
		if p == rt {
			isRoot = true
		}
	}
	if isRoot && !isEmptyDir(p) {
		// git init in a populated root: fine for non-bare (content stays untracked), not for bare
		if bare {
			return "add(skipped: populated root)", nil
		}
	}
	noCommit := w.r.IntN(50) == 0
	rp, err := w.createRepo(p, bare, noCommit)
	if err != nil {
		return "", err
	}
	return fmt.Sprintf("add(#%d %s bare=%v nocommit=%v)", rp.ID, w.short(p), bare, noCommit), nil
}

func (w *lsWorld) short(p string) string { return strings.TrimPrefix(p, w.dir+"/") }

func (w *lsWorld) pickRepo() *lsRepo {
	if len(w.repos) == 0 {
		return nil
	}
	return w.repos[w.r.IntN(len(w.repos))]
}

func (w *lsWorld) isRoot(p string) bool {
	for _, rt := range w.roots {
		if p == rt {
			return true
		}
	}
	return false
}

// contains reports whether another modelled repository or root lives inside rp's directory.
func (w *lsWorld) contains(rp *lsRepo) bool {
	for _, q := range w.repos {
		if q != rp && under(rp.Abs, q.Abs) {
			return true
		}
	}
	for _, rt := range w.roots {
		if under(rp.Abs, rt) {
			return true
		}
	}
	return false
}

func (w *lsWorld) drop(rp *lsRepo) {
	for i, q := range w.repos {
		if q == rp {
			w.repos = append(w.repos[:i], w.repos[i+1:]...)
			return
		}
	}
}

func (w *lsWorld) opRemove(rp *lsRepo) (string, error) {
	if rp == nil || w.contains(rp) {
		return "remove(skipped)", nil
	}
	if err := os.RemoveAll(rp.Abs); err != nil {
		return "", err
	}
	w.drop(rp)
	return fmt.Sprintf("remove(#%d %s)", rp.ID, w.short(rp.Abs)), nil
}

func (w *lsWorld) relocate(rp *lsRepo, dst, what string) (string, error) {
	if rp == nil || w.contains(rp) || w.blocked(dst) || w.occupied(dst) || under(rp.Abs, dst) {
		return what + "(skipped)", nil
	}
	if err := os.MkdirAll(filepath.Dir(dst), 0o755); err != nil {
		return "", err
	}
	if err := os.Rename(rp.Abs, dst); err != nil {
		return "", err
	}
	s := fmt.Sprintf("%s(#%d %s -> %s)", what, rp.ID, w.short(rp.Abs), w.short(dst))
	rp.Abs = dst
	return s, nil
}

func (w *lsWorld) rootOf(p string) (string, string) {
	best := ""
	for _, rt := range w.roots[:3] {
		if under(rt, p) && len(rt) > len(best) {
			best = rt
		}
	}
	if best == "" {
		return "", ""
	}
	rel, _ := filepath.Rel(best, p)
	return best, rel
}

func (w *lsWorld) opRename(rp *lsRepo) (string, error) {
	if rp == nil {
		return "rename(skipped)", nil
	}
	name := pick(w.r, lsComps)
	if rp.Bare {
		name += ".git"
	}
	return w.relocate(rp, filepath.Join(filepath.Dir(rp.Abs), name), "rename")
}

// opMove moves a repository to another root, usually keeping its root-relative
// path (so its name stays the same while its source changes).
func (w *lsWorld) opMove(rp *lsRepo) (string, error) {
	if rp == nil {
		return "move(skipped)", nil
	}
	rt, rel := w.rootOf(rp.Abs)
	if rt == "" || rel == "." {
		return "move(skipped)", nil
	}
	var others []string
	for _, o := range w.roots[:3] {
		if o != rt {
			others = append(others, o)
		}
	}
	dstRoot := pick(w.r, others)
	if w.r.IntN(4) == 0 {
		rel = filepath.Join(pick(w.r, lsComps), filepath.Base(rel))
	}
	return w.relocate(rp, filepath.Join(dstRoot, rel), "move")
}

func (w *lsWorld) opCommit(rp *lsRepo) (string, error) {
	if rp == nil {
		return "commit(skipped)", nil
	}
	rp.NoCommit = false
	w.newFiles(rp)
	if err := w.writeAndCommit(rp); err != nil {
		return "", err
	}
	return fmt.Sprintf("commit(#%d %s)", rp.ID, w.short(rp.Abs)), nil
}

// opDup creates a second repository that gets the name of an existing one.
func (w *lsWorld) opDup(rp *lsRepo) (string, error) {
	if rp == nil {
		return "dup(skipped)", nil
	}
	rt, rel := w.rootOf(rp.Abs)
	if rt == "" || rel == "." {
		return "dup(skipped)", nil
	}
	var dst string
	bare := false
	if w.r.IntN(3) == 0 {
		// same root: "x" (work tree) next to "x.git" (bare) share the name "x"
		if rp.Bare {
			dst = strings.TrimSuffix(rp.Abs, ".git")
		} else {
			dst, bare = rp.Abs+".git", true
		}
	} else {
		var others []string
		for _, o := range w.roots[:3] {
			if o != rt {
				others = append(others, o)
			}
		}
		dst = filepath.Join(pick(w.r, others), rel)
		bare = rp.Bare
	}
	if w.blocked(dst) || w.occupied(dst) {
		return "dup(skipped)", nil
	}
	n, err := w.createRepo(dst, bare, false)
	if err != nil {
		return "", err
	}
	return fmt.Sprintf("dup(#%d %s of #%d)", n.ID, w.short(dst), rp.ID), nil
}

func (w *lsWorld) opSelect() string {
	switch w.r.IntN(8) {
	case 0:
		w.selected = []int{0}
	case 1:
		w.selected = []int{1, 2}
	case 2:
		w.selected = []int{2, 0, 1}
	case 3:
		w.selected = []int{0, 1, 2, 3} // 3 = a directory inside root 0: overlapping roots
	case 4:
		w.selected = []int{3, 1}
	case 5:
		w.selected = []int{1, 0, 1} // the same root twice
	default:
		w.selected = []int{0, 1, 2}
	}
	w.viaSymlink = w.r.IntN(4) == 0
	return fmt.Sprintf("select(%v symlink=%v)", w.selected, w.viaSymlink)
}

// heal removes one of the repositories that made the previous round fail.
func (w *lsWorld) heal(exp expectation, dups []*lsRepo) (string, error) {
	for _, rp := range dups {
		if !w.contains(rp) {
			return w.opRemove(rp)
		}
	}
	w.selected = []int{0, 1, 2}
	return "heal(select all)", nil
}

// discovered is the oracle's reading of the tool's documented discovery: every
// directory with a .git entry (work tree) or named *.git holding a repository (bare)
// found by walking down from a root, without descending into a repository; the
// name is the path relative to the root (the root's base name for the root itself),
// a bare repository loses its .git suffix.
type disc struct {
	name string
	rp   *lsRepo
}

func (w *lsWorld) discover(root string) []disc {
	var out []disc
	for _, rp := range w.repos {
		if !under(root, rp.Abs) {
			continue
		}
		shadowed := false
		for _, q := range w.repos {
			if q != rp && under(q.Abs, rp.Abs) && under(root, q.Abs) {
				shadowed = true
			}
		}
		if shadowed {
			continue
		}
		rel, _ := filepath.Rel(root, rp.Abs)
		name := filepath.ToSlash(rel)
		if rel == "." {
			name = filepath.Base(root)
		}
		if rp.Bare {
			if !strings.HasSuffix(name, ".git") {
				continue // not recognisable as bare
			}
			name = strings.TrimSuffix(name, ".git")
		}
		out = append(out, disc{name, rp})
	}
	return out
}

func (w *lsWorld) expect() (expectation, []*lsRepo, error) {
	exp := expectation{Repos: map[string]expRepo{}}
	var dups []*lsRepo
	seenRoot := map[int]bool{}
	byName := map[string]*lsRepo{}
	bySource := map[string]bool{}
	for _, ri := range w.selected {
		if seenRoot[ri] {
			exp.Fail = "dup-root"
			return exp, nil, nil
		}
		seenRoot[ri] = true
	}
	for _, ri := range w.selected {
		for _, d := range w.discover(w.roots[ri]) {
			if prev, ok := byName[d.name]; ok && prev != d.rp {
				if exp.Fail == "" || exp.Fail == "dup-source" {
					exp.Fail = "dup-name"
				}
				dups = append(dups, d.rp, prev)
				continue
			}
			if bySource[d.rp.Abs] {
				if exp.Fail == "" {
					exp.Fail = "dup-source"
				}
				continue
			}
			byName[d.name] = d.rp
			bySource[d.rp.Abs] = true
			e := expRepo{Name: d.name, Source: d.rp.Abs, Files: map[string]string{}}
			if d.rp.NoCommit {
				exp.Unindexable = append(exp.Unindexable, d.name)
			} else {
				e.Head = d.rp.Head
			}
			for k, v := range d.rp.Files {
				e.Files[k] = v
			}
			exp.Repos[d.name] = e
		}
	}
	// a repository reachable under the same name through two overlapping roots is a
	// duplicate *name* as far as the tool's first check is concerned
	return exp, dups, nil
}

func (w *lsWorld) rootArgs() []string {
	var out []string
	for _, ri := range w.selected {
		p := w.roots[ri]
		if w.viaSymlink && ri == 1 {
			p = filepath.Join(w.dir, "link-to-r1")
		}
		out = append(out, p)
	}
	return out
}

func (w *lsWorld) flags() []string {
	f := []string{"-index", w.idx}
	if w.shardLimit > 0 {
		f = append(f, "-shard_limit", fmt.Sprint(w.shardLimit))
	}
	if w.fileLimit > 0 {
		f = append(f, "-file_limit", fmt.Sprint(w.fileLimit))
	}
	return f
}

// seedIndex puts a shard of a repository that is not (or no longer) under the roots
// into the index directory, built with the library.
func (w *lsWorld) seedIndex(name, source, version string, sidecar bool) error {
	opts := index.Options{IndexDir: w.idx, DisableCTags: true,
		RepositoryDescription: zoekt.Repository{Name: name, Source: source, Branches: []zoekt.RepositoryBranch{{Name: "HEAD", Version: version}}}}
	opts.SetDefaults()
	b, err := index.NewBuilder(opts)
	if err != nil {
		return err
	}
	if err := b.AddFile("old.txt", []byte("content of a repository indexed earlier\n")); err != nil {
		return err
	}
	if err := b.Finish(); err != nil {
		return err
	}
	if sidecar {
		// the optional metadata sidecar next to the shard (as metadata-only updates leave it)
		for _, shard := range opts.FindAllShards() {
			tmp, final, err := index.JsonMarshalRepoMetaTemp(shard, &opts.RepositoryDescription)
			if err != nil {
				return err
			}
			if err := os.Rename(tmp, final); err != nil {
				return err
			}
		}
	}
	return nil
}

func newLSWorld(work string, wi int, r *rand.Rand, useBin bool) (*lsWorld, error) {
	dir := filepath.Join(work, fmt.Sprintf("w%d", wi))
	os.RemoveAll(dir)
	w := &lsWorld{dir: dir, r: r, idx: filepath.Join(dir, "idx"), selected: []int{0, 1, 2}, useBin: useBin}
	w.roots = []string{filepath.Join(dir, "r0"), filepath.Join(dir, "r1"), filepath.Join(dir, "r2.git"), filepath.Join(dir, "r0", "grp")}
	for _, rt := range w.roots {
		if err := os.MkdirAll(rt, 0o755); err != nil {
			return nil, err
		}
	}
	if err := os.Symlink(w.roots[1], filepath.Join(dir, "link-to-r1")); err != nil {
		return nil, err
	}
	if r.IntN(4) == 0 {
		w.shardLimit = 40
	}
	switch r.IntN(5) {
	case 0:
		// index directory exists and is empty
		os.MkdirAll(w.idx, 0o755)
	case 1:
		if err := w.seedIndex("foreign/old", filepath.Join(dir, "gone", "old"), "1111111111111111111111111111111111111111", r.IntN(2) == 0); err != nil {
			return nil, err
		}
	case 2:
		// a shard under a name that a discovered repository will probably get, from another source
		if err := w.seedIndex("app", filepath.Join(dir, "elsewhere", "app"), "2222222222222222222222222222222222222222", r.IntN(2) == 0); err != nil {
			return nil, err
		}
	}
	n := 1 + r.IntN(4)
	for i := 0; i < n; i++ {
		if _, err := w.opAdd(); err != nil {
			return nil, err
		}
	}
	return w, nil
}

func (w *lsWorld) layout() []*lsRepo {
	var out []*lsRepo
	for _, rp := range w.repos {
		c := *rp
		c.Files = map[string]string{}
		for k, v := range rp.Files {
			c.Files[k] = v
		}
		out = append(out, &c)
	}
	return out
}

func (w *lsWorld) sync(force bool, alt bool) cmdResult {
	var args []string
	if alt {
		args = append(args, "sync")
	}
	args = append(args, w.flags()...)
	if force {
		args = append(args, "-f")
	}
	args = append(args, w.rootArgs()...)
	return w.tool(args)
}

// tool runs one zoekt-local-sync invocation: the built binary as a child process,
// or the command's execute function in this process (absolute paths only).
func (w *lsWorld) tool(args []string) cmdResult {
	w.calls++
	t0 := time.Now()
	defer func() { w.tTool += time.Since(t0) }()
	if w.useBin {
		return runBin("zoekt-local-sync", args, w.dir, nil, []string{"HOME=" + w.dir}, 180*time.Second)
	}
	return runInProcess(args)
}

// chooseSelectors picks the arguments of a `remove` run from what the index holds.
func (w *lsWorld) chooseSelectors(s snapshot) (kind string, sels []string) {
	type recd struct{ name, source string }
	seen := map[recd]bool{}
	var recs []recd
	for _, p := range sortedKeys(s.Entries) {
		e := s.Entries[p]
		if strings.HasSuffix(p, ".zoekt") && !strings.HasPrefix(e.Repo, "?") {
			k := recd{e.Repo, e.Source}
			if !seen[k] {
				seen[k] = true
				recs = append(recs, k)
			}
		}
	}
	if len(recs) == 0 {
		return "unknown/empty-index", []string{"no-such-repository"}
	}
	a := recs[w.r.IntN(len(recs))]
	switch w.r.IntN(8) {
	case 0:
		return "source", []string{a.source}
	case 1:
		return "source/.git", []string{a.source + "/.git"}
	case 2:
		if rel, err := filepath.Rel(w.dir, a.source); err == nil && w.useBin {
			return "relative-source", []string{"./" + rel}
		}
		return "name", []string{a.name}
	case 3:
		return "unknown", []string{"no-such-repository"}
	case 4:
		b := recs[w.r.IntN(len(recs))]
		return "two", []string{a.name, b.source}
	case 5:
		return "name+unknown", []string{a.name, "no-such-repository"}
	}
	return "name", []string{a.name}
}

func (w *lsWorld) remove(force bool, sels []string) cmdResult {
	args := []string{"remove", "-index", w.idx}
	if force {
		args = append(args, "-f")
	}
	args = append(args, sels...)
	return w.tool(args)
}

// runWorld plays one world and returns its observations (one per round).
func runWorld(work string, wi, rounds int, seed uint64) (obs []*roundObs) {
	r := kit.NewRand(seed, uint64(5000+wi))
	fail := func(round int, err error) []*roundObs {
		return append(obs, &roundObs{World: wi, Round: round, Harness: err.Error()})
	}
	w, err := newLSWorld(work, wi, r, wi%binEvery == 0)
	if err != nil {
		return fail(-1, err)
	}
	defer os.RemoveAll(w.dir)
	var lastDups []*lsRepo
	for round := 0; round < rounds; round++ {
		o := &roundObs{World: wi, Round: round, Scratch: w.dir, Binary: w.useBin}
		if round > 0 {
			nops := 1 + r.IntN(3)
			if w.lastFail != "" && r.IntN(10) < 7 {
				s, err := w.heal(expectation{}, lastDups)
				if err != nil {
					return fail(round, err)
				}
				o.Ops = append(o.Ops, s)
			}
			for _, rp := range w.repos {
				// a repository without commits makes every sync fail; usually it gets its first commit soon
				if rp.NoCommit && r.IntN(10) < 6 {
					s, err := w.opCommit(rp)
					if err != nil {
						return fail(round, err)
					}
					o.Ops = append(o.Ops, s)
				}
			}
			for k := 0; k < nops; k++ {
				var s string
				var err error
				switch x := r.IntN(20); {
				case x < 4:
					s, err = w.opAdd()
				case x < 6:
					s, err = w.opRemove(w.pickRepo())
				case x < 8:
					s, err = w.opRename(w.pickRepo())
				case x < 11:
					s, err = w.opMove(w.pickRepo())
				case x < 14:
					s, err = w.opCommit(w.pickRepo())
				case x < 15:
					s, err = w.opDup(w.pickRepo())
				case x < 17:
					s = w.opSelect()
				case x < 18:
					if w.fileLimit == 0 {
						w.fileLimit = 1000 + r.IntN(3)
					} else {
						w.fileLimit = 0
					}
					s = fmt.Sprintf("flags(file_limit=%d)", w.fileLimit)
				default:
					s = "nop"
				}
				if err != nil {
					return fail(round, err)
				}
				o.Ops = append(o.Ops, s)
			}
		} else {
			o.Ops = []string{"initial"}
		}
		exp, dups, err := w.expect()
		if err != nil {
			return fail(round, err)
		}
		lastDups = dups
		w.lastFail = exp.Fail
		o.Expect = exp
		o.Layout = w.layout()
		o.Roots = w.rootArgs()
		o.Flags = w.flags()
		alt := r.IntN(3) == 0
		o.S0 = takeSnapshot(w.idx)
		o.Preview = w.sync(false, alt)
		o.S1 = takeSnapshot(w.idx)
		o.Force = w.sync(true, alt)
		o.S2 = takeSnapshot(w.idx)
		if v, err := readIndex(w.idx); err != nil {
			o.ViewErr = err.Error()
		} else {
			o.View = v
		}
		if r.IntN(2) == 0 {
			rm := &removeObs{}
			rm.R0 = o.S2
			rm.Kind, rm.Selectors = w.chooseSelectors(rm.R0)
			rm.Preview = w.remove(false, rm.Selectors)
			rm.R1 = takeSnapshot(w.idx)
			rm.Force = w.remove(true, rm.Selectors)
			rm.R2 = takeSnapshot(w.idx)
			o.Remove = rm
		}
		o.MsGit, o.MsTool, w.tGit, w.tTool = w.tGit.Milliseconds(), w.tTool.Milliseconds(), 0, 0
		obs = append(obs, o)
	}
	return obs
}

// binEvery: every binEvery-th world drives the built binary, the others call execute.
const binEvery = 10

func runWorlds(rec *kit.Rec, nWorlds, rounds int) []*roundObs {
	if v, err := strconv.Atoi(os.Getenv("VERIF_LS_WORLDS")); err == nil && v > 0 {
		nWorlds = v // experiments only; the registered runs never set it
	}
	work, err := filepath.EvalSymlinks(rec.Work)
	if err != nil {
		work = rec.Work
	}
	// the in-process runs share this process: keep library logging out of the run log
	// and git configuration hermetic
	log.SetOutput(io.Discard)
	// every index build allocates two 16 MiB posting tables; a small GC percentage makes
	// the runtime reuse that memory instead of faulting in fresh pages (measured 2x)
	debug.SetGCPercent(25)
	os.Setenv("HOME", work)
	os.Setenv("GIT_CONFIG_GLOBAL", "/dev/null")
	os.Setenv("GIT_CONFIG_SYSTEM", "/dev/null")
	os.Setenv("GIT_CONFIG_NOSYSTEM", "1")
	res := parallelMap(nWorlds, 12, func(i int) []*roundObs {
		var o []*roundObs
		msg, stack, p := kit.Guard(func() { o = runWorld(work, i, rounds, rec.Seed) })
		if p {
			o = append(o, &roundObs{World: i, Round: -2, Harness: "harness panic: " + msg + "\n" + stack})
		}
		return o
	})
	var all []*roundObs
	for _, l := range res {
		all = append(all, l...)
	}
	return all
}

// ---------------------------------------------------------------------------------
// reading the tool's output

type announced struct {
	Remove   map[string]string // shard path relative to the index dir -> repository name announced
	Index    map[string]bool   // repository names
	UpToDate map[string]bool
}

// parseOutput reads the lines of a sync / remove run. verbs: preview uses
// "Would remove"/"Would index", -f uses "Removing"/"Indexed".
func parseOutput(out, idx string, removeVerb, indexVerb string) announced {
	a := announced{Remove: map[string]string{}, Index: map[string]bool{}, UpToDate: map[string]bool{}}
	for _, l := range strings.Split(out, "\n") {
		switch {
		case strings.HasPrefix(l, removeVerb+" "):
			rest := strings.TrimPrefix(l, removeVerb+" ")
			i := strings.Index(rest, " (repository ")
			if i < 0 {
				continue
			}
			p := rest[:i]
			name := ""
			if q, err := strconv.QuotedPrefix(rest[i+len(" (repository "):]); err == nil {
				name, _ = strconv.Unquote(q)
			}
			rel, err := filepath.Rel(idx, p)
			if err != nil {
				rel = p
			}
			a.Remove[rel] = name
		case strings.HasPrefix(l, indexVerb+" "):
			if q, err := strconv.QuotedPrefix(strings.TrimPrefix(l, indexVerb+" ")); err == nil {
				n, _ := strconv.Unquote(q)
				a.Index[n] = true
			}
		case strings.HasPrefix(l, "Up to date "):
			if q, err := strconv.QuotedPrefix(strings.TrimPrefix(l, "Up to date ")); err == nil {
				n, _ := strconv.Unquote(q)
				a.UpToDate[n] = true
			}
		}
	}
	return a
}

func ignoreLock(rel string) bool { return rel == lockName || rel == "." }

func shardRepos(s snapshot) map[string]int {
	m := map[string]int{}
	for p, e := range s.Entries {
		if strings.HasSuffix(p, ".zoekt") {
			m[e.Repo]++
		}
	}
	return m
}

func opKinds(ops []string) string {
	var ks []string
	for _, o := range ops {
		if i := strings.Index(o, "("); i > 0 {
			o = o[:i]
		}
		ks = append(ks, o)
	}
	return strings.Join(ks, "+")
}

func setList(m map[string]bool) []string {
	var l []string
	for k := range m {
		l = append(l, k)
	}
	sort.Strings(l)
	return l
}
