// Helpers of the zoekt-local-sync monitors (C33, C34): child processes, snapshots, index read-back.
package main

import (
	"bytes"
	"context"
	"crypto/sha256"
	"encoding/hex"
	"errors"
	"flag"
	"fmt"
	"math/rand/v2"
	"os"
	"os/exec"
	"path/filepath"
	"sort"
	"strings"
	"sync"
	"syscall"
	"time"
	"unicode/utf8"

	"github.com/sourcegraph/zoekt"
	"github.com/sourcegraph/zoekt/index"
	kit "github.com/sourcegraph/zoekt/internal/verifkit"
	"github.com/sourcegraph/zoekt/query"
	"github.com/sourcegraph/zoekt/search"
)

// binPath returns the path of a command binary built by the driver.
func binPath(name string) string {
	return filepath.Join(os.Getenv("VERIF_BIN"), name)
}

func haveBin(name string) bool {
	st, err := os.Stat(binPath(name))
	return err == nil && st.Mode().IsRegular()
}

// cmdResult is what one child command left behind.
type cmdResult struct {
	Args     []string `json:"args"`
	Dir      string   `json:"cwd,omitempty"`
	Exit     int      `json:"exit"`
	Signal   string   `json:"signal,omitempty"`
	TimedOut bool     `json:"timed_out,omitempty"`
	Stdout   string   `json:"stdout"`
	Stderr   string   `json:"stderr"`
}

// runBin runs a built command. The watchdog is generous and wall-clock; when it
// fires the case is inconclusive, never a verdict.
func runBin(name string, args []string, dir string, stdin []byte, env []string, watchdog time.Duration) cmdResult {
	ctx, cancel := context.WithTimeout(context.Background(), watchdog)
	defer cancel()
	cmd := exec.CommandContext(ctx, binPath(name), args...)
	cmd.Dir = dir
	cmd.Env = append(append([]string{}, os.Environ()...), "GOTRACEBACK=all", "GOMAXPROCS=2", "GOGC=off", "GOMEMLIMIT=1GiB")
	cmd.Env = append(cmd.Env, env...)
	var so, se bytes.Buffer
	cmd.Stdout = &so
	cmd.Stderr = &se
	if stdin != nil {
		cmd.Stdin = bytes.NewReader(stdin)
	}
	cmd.SysProcAttr = &syscall.SysProcAttr{Setpgid: true}
	cmd.Cancel = func() error { return syscall.Kill(-cmd.Process.Pid, syscall.SIGKILL) }
	err := cmd.Run()
	res := cmdResult{Args: append([]string{name}, args...), Dir: dir, Stdout: clip(so.String(), 6000), Stderr: clip(se.String(), 6000)}
	if ctx.Err() != nil {
		res.TimedOut = true
	}
	var ee *exec.ExitError
	if errors.As(err, &ee) {
		res.Exit = ee.ExitCode()
		if ws, ok := ee.Sys().(syscall.WaitStatus); ok && ws.Signaled() {
			res.Signal = ws.Signal().String()
		}
	} else if err != nil {
		res.Exit = -2
		res.Stderr += "\n[harness] " + err.Error()
	}
	return res
}

// runInProcess calls the command's execute function the way main does and maps
// the outcome to the exit status main would produce.
func runInProcess(args []string) cmdResult {
	var so, se bytes.Buffer
	var err error
	msg, stack, p := kit.Guard(func() { err = execute(args, &so, &se) })
	res := cmdResult{Args: append([]string{"execute(in-process)"}, args...)}
	switch {
	case p:
		res.Exit = 2
		se.WriteString("panic: " + msg + "\n\n" + stack)
	case err != nil && !errors.Is(err, flag.ErrHelp):
		res.Exit = 1
		fmt.Fprintln(&se, err)
	}
	res.Stdout, res.Stderr = clip(so.String(), 6000), clip(se.String(), 6000)
	return res
}

func pick[T any](r *rand.Rand, l []T) T { return l[r.IntN(len(l))] }

func clip(s string, n int) string {
	if len(s) <= n {
		return s
	}
	// keep the head: a Go crash trace starts with the panic line
	return s[:n] + "…[clipped]"
}

// crashed reports whether the child ended with a Go runtime crash (panic, fatal
// error, fatal signal) as opposed to a clean error exit (log.Fatal / os.Exit(1)).
func (c cmdResult) crashed() bool {
	if c.TimedOut {
		return false
	}
	if c.Signal != "" {
		return true
	}
	if c.Exit == 0 {
		return false
	}
	for _, l := range strings.Split(c.Stderr, "\n") {
		if strings.HasPrefix(l, "panic:") || strings.HasPrefix(l, "fatal error:") || strings.HasPrefix(l, "[signal ") ||
			strings.HasPrefix(l, "goroutine 1 [") || strings.Contains(l, "unexpected fault address") || strings.HasPrefix(l, "SIGSEGV") {
			return true
		}
	}
	return false
}

// crashClass: first panic/fatal line (digits collapsed) and the first two zoekt frames.
func (c cmdResult) crashClass() string {
	lines := strings.Split(c.Stderr, "\n")
	kind := ""
	var frames []string
	for i, l := range lines {
		if kind == "" && (strings.HasPrefix(l, "panic:") || strings.HasPrefix(l, "fatal error:")) {
			kind = msgClass(l)
			for _, m := range lines[i:] {
				m = strings.TrimSpace(m)
				if strings.HasPrefix(m, "github.com/sourcegraph/zoekt") || strings.HasPrefix(m, "main.") {
					if j := strings.LastIndex(m, "("); j > 0 {
						m = m[:j]
					}
					frames = append(frames, strings.TrimPrefix(m, "github.com/sourcegraph/zoekt"))
					if len(frames) == 2 {
						break
					}
				}
			}
			break
		}
	}
	if kind == "" {
		if c.Signal != "" {
			return "killed by " + c.Signal
		}
		return fmt.Sprintf("exit %d with goroutine trace", c.Exit)
	}
	return kind + " @ " + strings.Join(frames, " < ")
}

// msgClass collapses digits / hex / quoted strings / paths so that a message
// becomes a stable class.
func msgClass(msg string) string {
	var b strings.Builder
	inq := false
	lastHash := false
	for _, c := range msg {
		switch {
		case c == '"':
			inq = !inq
			b.WriteByte('"')
			lastHash = false
		case inq:
		case c >= '0' && c <= '9':
			if !lastHash {
				b.WriteByte('#')
				lastHash = true
			}
		default:
			b.WriteRune(c)
			lastHash = false
		}
		if b.Len() > 100 {
			break
		}
	}
	return b.String()
}

// lastLine returns the last non-empty line of s with the scratch path removed.
func lastLine(s, scratch string) string {
	ls := strings.Split(strings.TrimSpace(s), "\n")
	l := ls[len(ls)-1]
	if scratch != "" {
		l = strings.ReplaceAll(l, scratch, "$W")
	}
	// drop the log timestamp and file:line prefix
	if len(l) > 20 && l[4] == '/' && l[7] == '/' && l[10] == ' ' {
		l = l[20:]
	}
	return l
}

// show renders bytes for witnesses: text as is, anything else as hex.
func show(b []byte) string {
	if utf8.Valid(b) && !bytes.ContainsRune(b, 0) {
		return string(b)
	}
	return "hex:" + hex.EncodeToString(b)
}

// ---------------------------------------------------------------------------------
// reading an index directory back

// docKey identifies one indexed document for multiset comparison.
type docKey struct{ Repo, Name, Content string }

type indexView struct {
	Docs  map[docKey]int
	Repos map[string]*zoekt.Repository // by name, from List
	// RepoEntries counts List entries per name (must be 1)
	RepoEntries map[string]int
	Crashes     int
}

func hasShards(dir string) bool {
	es, err := os.ReadDir(dir)
	if err != nil {
		return false
	}
	for _, e := range es {
		if strings.HasSuffix(e.Name(), ".zoekt") {
			return true
		}
	}
	return false
}

// readIndex opens dir with the directory searcher and returns every document
// (whole content) and the repository list.
func readIndex(dir string) (*indexView, error) {
	v := &indexView{Docs: map[docKey]int{}, Repos: map[string]*zoekt.Repository{}, RepoEntries: map[string]int{}}
	if !hasShards(dir) {
		return v, nil
	}
	ds, err := search.NewDirectorySearcher(dir)
	if err != nil {
		return nil, fmt.Errorf("NewDirectorySearcher: %w", err)
	}
	defer ds.Close()
	sr, err := ds.Search(context.Background(), &query.Const{Value: true}, &zoekt.SearchOptions{Whole: true})
	if err != nil {
		return nil, fmt.Errorf("Search: %w", err)
	}
	v.Crashes = sr.Stats.Crashes
	for i := range sr.Files {
		f := &sr.Files[i]
		v.Docs[docKey{f.Repository, f.FileName, string(f.Content)}]++
	}
	rl, err := ds.List(context.Background(), &query.Const{Value: true}, nil)
	if err != nil {
		return nil, fmt.Errorf("List: %w", err)
	}
	v.Crashes += rl.Crashes
	for _, e := range rl.Repos {
		r := e.Repository
		v.Repos[r.Name] = &r
		v.RepoEntries[r.Name]++
	}
	return v, nil
}

// ---------------------------------------------------------------------------------
// snapshots of an index directory

type snapEntry struct {
	Mode  string `json:"mode"`
	Size  int64  `json:"size"`
	MTime int64  `json:"mtime_ns"`
	Hash  string `json:"sha256,omitempty"`
	// for *.zoekt files: the repository the shard holds (from its metadata)
	Repo   string `json:"repo,omitempty"`
	Source string `json:"source,omitempty"`
}

type snapshot struct {
	Exists  bool                 `json:"exists"`
	Entries map[string]snapEntry `json:"entries"` // relative path ("." = the directory itself)
}

func takeSnapshot(dir string) snapshot {
	s := snapshot{Entries: map[string]snapEntry{}}
	if _, err := os.Lstat(dir); err != nil {
		return s
	}
	s.Exists = true
	filepath.Walk(dir, func(p string, info os.FileInfo, err error) error {
		if err != nil {
			return nil
		}
		rel, _ := filepath.Rel(dir, p)
		e := snapEntry{Mode: info.Mode().String(), Size: info.Size(), MTime: info.ModTime().UnixNano()}
		if info.Mode().IsRegular() {
			if b, err := os.ReadFile(p); err == nil {
				h := sha256.Sum256(b)
				e.Hash = hex.EncodeToString(h[:8])
			}
			if strings.HasSuffix(p, ".zoekt") {
				if repos, _, err := index.ReadMetadataPathAlive(p); err == nil && len(repos) == 1 {
					e.Repo = repos[0].Name
					e.Source = repos[0].Source
				} else if err != nil {
					e.Repo = "?unreadable: " + err.Error()
				} else {
					e.Repo = fmt.Sprintf("?%d repositories", len(repos))
				}
			}
		} else if info.IsDir() {
			e.Size = 0
		}
		s.Entries[rel] = e
		return nil
	})
	return s
}

// snapDiff lists the differences between two snapshots. ignore is consulted with
// the relative path; dirMeta=false leaves directory mtimes out.
func snapDiff(a, b snapshot, dirMeta bool, ignore func(rel string) bool) (removed, added, changed []string) {
	if a.Exists != b.Exists && (ignore == nil || !ignore(".")) {
		if a.Exists {
			removed = append(removed, ".")
		} else {
			added = append(added, ".")
		}
	}
	for p, ea := range a.Entries {
		if ignore != nil && ignore(p) {
			continue
		}
		eb, ok := b.Entries[p]
		if !ok {
			if p != "." {
				removed = append(removed, p)
			}
			continue
		}
		isDir := strings.HasPrefix(ea.Mode, "d")
		if isDir && !dirMeta {
			if ea.Mode != eb.Mode {
				changed = append(changed, p)
			}
			continue
		}
		if ea.Mode != eb.Mode || ea.Size != eb.Size || ea.MTime != eb.MTime || ea.Hash != eb.Hash {
			changed = append(changed, p)
		}
	}
	for p := range b.Entries {
		if ignore != nil && ignore(p) {
			continue
		}
		if _, ok := a.Entries[p]; !ok && p != "." {
			added = append(added, p)
		}
	}
	sort.Strings(removed)
	sort.Strings(added)
	sort.Strings(changed)
	return
}

// ---------------------------------------------------------------------------------
// deterministic parallel map: results come back in index order

func parallelMap[T any](n, workers int, f func(i int) T) []T {
	out := make([]T, n)
	var wg sync.WaitGroup
	next := make(chan int)
	for w := 0; w < workers; w++ {
		wg.Add(1)
		go func() {
			defer wg.Done()
			for i := range next {
				out[i] = f(i)
			}
		}()
	}
	for i := 0; i < n; i++ {
		next <- i
	}
	close(next)
	wg.Wait()
	return out
}

func sortedKeys[V any](m map[string]V) []string {
	var l []string
	for k := range m {
		l = append(l, k)
	}
	sort.Strings(l)
	return l
}
