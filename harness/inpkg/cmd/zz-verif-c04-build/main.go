// Command zz-verif-c04-build is a helper of the /verif check C04 (never part of
// zoekt): it writes the shards of generated worlds. The check itself runs under the
// race detector, where every index.ShardBuilder costs seconds (two 16 MB posting
// tables are range-checked on allocation); this helper is built without -race and
// does only the writing. Input: directories that hold world.json.verif
// ({"Corpus":…, "Groups":…}); output: the shards and paths.json.verif (shard path per
// group) in the same directory.
package main

import (
	"encoding/json"
	"fmt"
	"io"
	"log"
	"os"
	"path/filepath"
	"sync"

	kit "github.com/sourcegraph/zoekt/internal/verifkit"
	"github.com/sourcegraph/zoekt/internal/verifkit/ix"
)

type c04WorldFile struct {
	Corpus *kit.Corpus
	Groups [][]int
}

func c04BuildOne(dir string) error {
	b, err := os.ReadFile(filepath.Join(dir, "world.json.verif"))
	if err != nil {
		return err
	}
	var w c04WorldFile
	if err := json.Unmarshal(b, &w); err != nil {
		return err
	}
	paths, err := ix.BuildLayout(dir, w.Corpus, ix.Layout{Groups: w.Groups})
	if err != nil {
		return err
	}
	out, _ := json.Marshal(paths)
	if err := os.WriteFile(filepath.Join(dir, "paths.json.verif.tmp"), out, 0o644); err != nil {
		return err
	}
	return os.Rename(filepath.Join(dir, "paths.json.verif.tmp"), filepath.Join(dir, "paths.json.verif"))
}

func main() {
	log.SetOutput(io.Discard)
	dirs := os.Args[1:]
	var wg sync.WaitGroup
	var mu sync.Mutex
	failed := 0
	ch := make(chan string)
	for k := 0; k < 8; k++ {
		wg.Add(1)
		go func() {
			defer wg.Done()
			for d := range ch {
				if err := c04BuildOne(d); err != nil {
					mu.Lock()
					failed++
					fmt.Fprintf(os.Stderr, "%s: %v\n", d, err)
					mu.Unlock()
				}
			}
		}()
	}
	for _, d := range dirs {
		ch <- d
	}
	close(ch)
	wg.Wait()
	if failed > 0 {
		os.Exit(1)
	}
}
