package gitindex

// C14: git indexing captures exactly the indexed branch trees.
//
// Part A (end to end): repositories written with `git fast-import` (regular,
// executable, symlink and gitlink entries, nested directories, identical blobs at
// several paths, blobs around a tiny SizeMax, binary blobs, per-branch
// .sourcegraph/ignore files, LargeFiles exceptions) are indexed by IndexGitRepo with
// ZOEKT_DISABLE_CATFILE_BATCH=true (go-git reading path) and =false (cat-file
// reading path); the documents served by the written shards are compared with the
// generator's own model and with each other.
// Part B (white box): catfileReader fed from synthetic `cat-file --batch` streams
// (sizes around the buffer size, missing and excluded objects, short reads from the
// pipe) with random consumer behaviour must deliver exactly the blob bytes.
// Part C (white box): contentSlab.alloc aliasing monitor.

import (
	"bufio"
	"bytes"
	"context"
	"fmt"
	"io"
	"log"
	"math/rand/v2"
	"os"
	"os/exec"
	"path/filepath"
	"regexp"
	"sort"
	"strconv"
	"strings"
	"sync"
	"testing"

	"github.com/sourcegraph/zoekt"
	"github.com/sourcegraph/zoekt/index"
	kit "github.com/sourcegraph/zoekt/internal/verifkit"
	"github.com/sourcegraph/zoekt/query"
	"github.com/sourcegraph/zoekt/search"
)

// ---------------------------------------------------------------------------
// helpers (copies of the ones in harness/checks/gitx; test packages cannot share)

func vf14GitEnv() []string {
	var env []string
	for _, e := range os.Environ() {
		if strings.HasPrefix(e, "GIT_") {
			continue
		}
		env = append(env, e)
	}
	return append(env, "GIT_CONFIG_GLOBAL=/dev/null", "GIT_CONFIG_NOSYSTEM=1",
		"GIT_AUTHOR_NAME=Verif", "GIT_AUTHOR_EMAIL=verif@example.com",
		"GIT_COMMITTER_NAME=Verif", "GIT_COMMITTER_EMAIL=verif@example.com", "LC_ALL=C")
}

func vf14Git(dir string, stdin []byte, args ...string) (string, error) {
	cmd := exec.Command("git", args...)
	cmd.Dir = dir
	cmd.Env = vf14GitEnv()
	if stdin != nil {
		cmd.Stdin = bytes.NewReader(stdin)
	}
	var out, errb bytes.Buffer
	cmd.Stdout, cmd.Stderr = &out, &errb
	if err := cmd.Run(); err != nil {
		return out.String(), fmt.Errorf("git %s: %v: %s", strings.Join(args, " "), err, errb.String())
	}
	return out.String(), nil
}

func vf14Quote(p string) string {
	var b strings.Builder
	b.WriteByte('"')
	for i := 0; i < len(p); i++ {
		switch c := p[i]; c {
		case '"', '\\':
			b.WriteByte('\\')
			b.WriteByte(c)
		case '\n':
			b.WriteString("\\n")
		default:
			b.WriteByte(c)
		}
	}
	b.WriteByte('"')
	return b.String()
}

type vf14Log struct {
	mu    sync.Mutex
	lines []string
	part  []byte
}

func (l *vf14Log) Write(p []byte) (int, error) {
	l.mu.Lock()
	defer l.mu.Unlock()
	l.part = append(l.part, p...)
	for {
		i := bytes.IndexByte(l.part, '\n')
		if i < 0 {
			break
		}
		l.lines = append(l.lines, string(l.part[:i]))
		l.part = l.part[i+1:]
	}
	return len(p), nil
}

func (l *vf14Log) take() []string {
	l.mu.Lock()
	defer l.mu.Unlock()
	x := l.lines
	l.lines = nil
	return x
}

func vf14Keys[V any](m map[string]V) []string {
	l := make([]string, 0, len(m))
	for k := range m {
		l = append(l, k)
	}
	sort.Strings(l)
	return l
}

func vf14Clip(s string, n int) string {
	if len(s) > n {
		return s[:n] + "…"
	}
	return s
}

// ---------------------------------------------------------------------------
// Part A model

type vf14Entry struct {
	Mode    string // 100644 100755 120000 160000
	Content []byte // blob bytes (symlink: the target); nil for gitlinks
	Link    string // gitlink commit id
}

type vf14Tree map[string]vf14Entry

// an ignore line together with the harness' own reading of the documented rules
type vf14Ignore struct {
	Line  string
	match func(path string) bool // nil: comment / blank
}

// a LargeFiles pattern together with the harness' own reading of it
type vf14Large struct {
	Pattern string
	neg     bool
	match   func(path string) bool
}

var (
	vf14Dirs  = []string{"", "", "src/", "src/pkg/", "docs/", "vendor/lib/", "a/b/c/d/", "node_modules/x/", "src/pkg/deep/er/"}
	vf14Names = []string{"main.go", "util.go", "README.md", "notes.txt", "x.big", "y.big", "img.dat", "Makefile", "sp ace.txt", "ünï.md", ".hidden", "data.json", "link", "mod"}
	vf14Pool  = []string{
		"package main\n\nfunc main() {}\n",
		"shared text blob\nwith two lines\n",
		"# heading\n\nsome documentation text\n",
		"../main.go",
		"{\"k\": [1, 2, 3]}\n",
	}
)

func vf14Text(r *rand.Rand, n int) []byte {
	words := []string{"alpha", "beta", "gamma", "delta", "func", "return", "zoekt", "index", "übung", "naïve", "\n", "\n", " ", "\t", "x=1;", "\xff\xfe"}
	var b bytes.Buffer
	for b.Len() < n {
		b.WriteString(words[r.IntN(len(words))])
		b.WriteByte(' ')
	}
	out := b.Bytes()[:n]
	for i, c := range out {
		if c == 0 {
			out[i] = 'z'
		}
	}
	return out
}

type vf14Repo struct {
	Branches  []string                // all branches in the repository
	Indexed   []string                // names passed to IndexGitRepo (may contain HEAD)
	Trees     map[string]vf14Tree     // per repository branch
	Ignore    map[string][]vf14Ignore // per repository branch
	SizeMax   int
	Large     []vf14Large
	Stream    string
	feat      map[string]bool
	looseObjs bool
}

func (m *vf14Repo) entry(r *rand.Rand) vf14Entry {
	switch k := r.IntN(100); {
	case k < 8:
		return vf14Entry{Mode: "120000", Content: []byte([]string{"../main.go", "src/util.go", "docs", "/etc/passwd", "ünï.md"}[r.IntN(5)])}
	case k < 13:
		return vf14Entry{Mode: "160000", Link: fmt.Sprintf("%040x", r.Uint64())}
	case k < 22:
		b := vf14Text(r, 3+r.IntN(m.SizeMax))
		b[r.IntN(len(b))] = 0
		if r.IntN(3) == 0 {
			b = append(b, vf14Text(r, m.SizeMax)...) // binary and too large
		}
		return vf14Entry{Mode: "100644", Content: b}
	case k < 34:
		n := m.SizeMax + 1 + r.IntN(120)
		if r.IntN(3) == 0 {
			n = m.SizeMax + 1
		}
		return vf14Entry{Mode: "100644", Content: vf14Text(r, n)}
	case k < 40:
		return vf14Entry{Mode: "100644", Content: vf14Text(r, m.SizeMax)} // exactly the limit
	case k < 45:
		return vf14Entry{Mode: "100644", Content: []byte{}}
	case k < 55:
		return vf14Entry{Mode: "100755", Content: vf14Text(r, 3+r.IntN(m.SizeMax-3))}
	case k < 75:
		return vf14Entry{Mode: []string{"100644", "100644", "100755"}[r.IntN(3)], Content: []byte(vf14Pool[r.IntN(len(vf14Pool))])}
	default:
		return vf14Entry{Mode: "100644", Content: vf14Text(r, 3+r.IntN(m.SizeMax-3))}
	}
}

func vf14Path(r *rand.Rand) string {
	return vf14Dirs[r.IntN(len(vf14Dirs))] + vf14Names[r.IntN(len(vf14Names))]
}

// put inserts e at p unless p would collide with a directory/file of the tree.
func (t vf14Tree) put(p string, e vf14Entry) bool {
	for q := range t {
		if strings.HasPrefix(q, p+"/") || strings.HasPrefix(p, q+"/") {
			return false
		}
	}
	t[p] = e
	return true
}

func vf14IgnoreLines(r *rand.Rand) []vf14Ignore {
	prefix := func(pre string) func(string) bool { return func(p string) bool { return strings.HasPrefix(p, pre) } }
	templates := []func() vf14Ignore{
		func() vf14Ignore { return vf14Ignore{Line: "# generated ignore file"} },
		func() vf14Ignore { return vf14Ignore{Line: ""} },
		func() vf14Ignore { return vf14Ignore{Line: "   "} },
		func() vf14Ignore { return vf14Ignore{Line: "#vendor/"} },
		func() vf14Ignore { // directory, implicit **
			d := []string{"vendor/", "node_modules/", "docs/", "a/b/", "src/pkg/deep/"}[r.IntN(5)]
			return vf14Ignore{Line: d, match: prefix(d)}
		},
		func() vf14Ignore { // leading slash, surrounding blanks
			d := []string{"vendor/", "docs/", "a/"}[r.IntN(3)]
			return vf14Ignore{Line: " /" + d + " ", match: prefix(d)}
		},
		func() vf14Ignore { // no glob characters and no slash: still a prefix
			d := []string{"vendor", "node_modules", "Makefile", "a/b/c"}[r.IntN(4)]
			return vf14Ignore{Line: d, match: prefix(d)}
		},
		func() vf14Ignore { // *.ext at the root only: * does not cross a separator
			e := []string{".md", ".big", ".go", ".txt"}[r.IntN(4)]
			return vf14Ignore{Line: "*" + e, match: func(p string) bool { return !strings.Contains(p, "/") && strings.HasSuffix(p, e) }}
		},
		func() vf14Ignore { // dir/*.ext: direct children
			d := []string{"src/", "docs/", "src/pkg/"}[r.IntN(3)]
			e := []string{".md", ".go", ".json"}[r.IntN(3)]
			return vf14Ignore{Line: d + "*" + e, match: func(p string) bool {
				rest, ok := strings.CutPrefix(p, d)
				return ok && !strings.Contains(rest, "/") && strings.HasSuffix(rest, e)
			}}
		},
		func() vf14Ignore { // dir/** : everything below
			d := []string{"vendor/", "src/pkg/", "a/b/c/"}[r.IntN(3)]
			return vf14Ignore{Line: d + "**", match: prefix(d)}
		},
		func() vf14Ignore { // an exact file (contains a dot: no implicit **)
			f := []string{"src/main.go", "README.md", "docs/notes.txt", "img.dat"}[r.IntN(4)]
			return vf14Ignore{Line: f, match: func(p string) bool { return p == f }}
		},
		func() vf14Ignore { // ? = one non-separator character
			return vf14Ignore{Line: "src/?til.go", match: regexp.MustCompile(`^src/[^/]til\.go$`).MatchString}
		},
	}
	var out []vf14Ignore
	for i, n := 0, 1+r.IntN(5); i < n; i++ {
		out = append(out, templates[r.IntN(len(templates))]())
	}
	return out
}

func vf14LargeSets(r *rand.Rand) []vf14Large {
	root := func(ext string) func(string) bool {
		return func(p string) bool { return !strings.Contains(p, "/") && strings.HasSuffix(p, ext) }
	}
	anyDepth := func(ext string) func(string) bool { return func(p string) bool { return strings.HasSuffix(p, ext) } }
	switch r.IntN(7) {
	case 0:
		return nil // empty: a --filter would be used, git 2.39 lacks it, zoekt falls back to go-git
	case 1:
		return []vf14Large{{Pattern: "zz-no-such-file", match: func(p string) bool { return p == "zz-no-such-file" }}}
	case 2:
		return []vf14Large{{Pattern: "*.big", match: root(".big")}}
	case 3:
		return []vf14Large{{Pattern: "**/*.big", match: anyDepth(".big")}}
	case 4:
		return []vf14Large{{Pattern: "vendor/**", match: func(p string) bool { return strings.HasPrefix(p, "vendor/") }}}
	case 5:
		return []vf14Large{{Pattern: "**/*.big", match: anyDepth(".big")}, {Pattern: "!x.big", neg: true, match: func(p string) bool { return p == "x.big" }}}
	default:
		return []vf14Large{{Pattern: "!src/**", neg: true, match: func(p string) bool { return strings.HasPrefix(p, "src/") }}, {Pattern: "**/*.dat", match: anyDepth(".dat")}, {Pattern: "**/*.big", match: anyDepth(".big")}}
	}
}

func (m *vf14Repo) sizeExempt(p string) bool {
	for i := len(m.Large) - 1; i >= 0; i-- { // a later pattern overrides earlier ones
		if m.Large[i].match(p) {
			return !m.Large[i].neg
		}
	}
	return false
}

func (m *vf14Repo) ignored(branch, p string) bool {
	for _, l := range m.Ignore[branch] {
		if l.match != nil && l.match(p) {
			return true
		}
	}
	return false
}

const (
	vf14TooLarge = "NOT-INDEXED: exceeds the maximum size limit"
	vf14Binary   = "NOT-INDEXED: contains binary content"
)

type vf14Doc struct {
	Name     string
	Content  string
	Branches []string
}

func (d vf14Doc) key() string { return d.Name + "\x00" + d.Content + "\x00" + strings.Join(d.Branches, ",") }

// expected computes the documents the statement of C14 asks for. alt lists, per
// document key, an equally acceptable content (a blob both too large and binary
// may carry either explanation).
func (m *vf14Repo) expected() (docs []vf14Doc, alt map[string]string) {
	type acc struct {
		path    string
		content []byte
		br      map[string]bool
	}
	byKey := map[string]*acc{}
	for _, ib := range m.Indexed {
		b := ib
		if ib == "HEAD" {
			b = "main"
		}
		for p, e := range m.Trees[b] {
			if e.Mode == "160000" {
				m.feat["gitlink"] = true
				continue
			}
			if m.ignored(b, p) {
				m.feat["ignored-path"] = true
				continue
			}
			k := p + "\x00" + string(e.Content)
			if byKey[k] == nil {
				byKey[k] = &acc{path: p, content: e.Content, br: map[string]bool{}}
			}
			byKey[k].br[ib] = true
			switch e.Mode {
			case "120000":
				m.feat["symlink"] = true
			case "100755":
				m.feat["executable"] = true
			}
		}
	}
	alt = map[string]string{}
	blobPaths := map[string]map[string]bool{}
	pathBlobs := map[string]int{}
	for _, k := range vf14Keys(byKey) {
		a := byKey[k]
		d := vf14Doc{Name: a.path, Content: string(a.content), Branches: vf14Keys(a.br)}
		large := len(a.content) > m.SizeMax && !m.sizeExempt(a.path)
		binary := bytes.IndexByte(a.content, 0) >= 0
		switch {
		case large && binary:
			d.Content = vf14TooLarge
			alt[vf14Doc{d.Name, vf14TooLarge, d.Branches}.key()] = vf14Binary
			m.feat["too-large"] = true
		case large:
			d.Content = vf14TooLarge
			m.feat["too-large"] = true
		case binary:
			d.Content = vf14Binary
			m.feat["binary"] = true
		default:
			if len(a.content) > m.SizeMax {
				m.feat["large-but-exempt"] = true
			}
			if len(a.content) == m.SizeMax {
				m.feat["exactly-sizemax"] = true
			}
		}
		if len(a.br) > 1 {
			m.feat["same-blob-on-several-branches"] = true
		}
		if blobPaths[string(a.content)] == nil {
			blobPaths[string(a.content)] = map[string]bool{}
		}
		blobPaths[string(a.content)][a.path] = true
		pathBlobs[a.path]++
		docs = append(docs, d)
	}
	for _, ps := range blobPaths {
		if len(ps) > 1 {
			m.feat["identical-blob-at-several-paths"] = true
		}
	}
	for _, n := range pathBlobs {
		if n > 1 {
			m.feat["path-differs-across-branches"] = true
		}
	}
	return docs, alt
}

func vf14Generate(r *rand.Rand) *vf14Repo {
	m := &vf14Repo{Trees: map[string]vf14Tree{}, Ignore: map[string][]vf14Ignore{}, feat: map[string]bool{}}
	m.SizeMax = []int{64, 100, 257}[r.IntN(3)]
	m.Large = vf14LargeSets(r)
	m.Branches = []string{"main", "dev", "rel/1.x", "feature-é"}[:2+r.IntN(3)]
	m.looseObjs = r.IntN(2) == 0
	base := vf14Tree{}
	for i, n := 0, 4+r.IntN(8); i < n; i++ {
		p, e := vf14Path(r), m.entry(r)
		if (strings.HasSuffix(p, ".big") || strings.HasSuffix(p, ".dat") || strings.HasPrefix(p, "vendor/")) && r.IntN(10) < 6 {
			e = vf14Entry{Mode: "100644", Content: vf14Text(r, m.SizeMax+1+r.IntN(150))} // candidates for the LargeFiles exceptions
		}
		base.put(p, e)
	}
	for _, b := range m.Branches {
		t := vf14Tree{}
		for p, e := range base {
			t[p] = e
		}
		if b != "main" || r.IntN(2) == 0 {
			for i, n := 0, r.IntN(6); i < n; i++ {
				ks := vf14Keys(t)
				switch k := r.IntN(4); {
				case k == 0 && len(ks) > 1:
					delete(t, ks[r.IntN(len(ks))])
				case k == 1 && len(ks) > 0: // same path, other blob / mode
					t[ks[r.IntN(len(ks))]] = m.entry(r)
				case k == 2 && len(ks) > 0: // same blob, other path
					t.put(vf14Path(r), t[ks[r.IntN(len(ks))]])
				default:
					t.put(vf14Path(r), m.entry(r))
				}
			}
		}
		if r.IntN(10) < 6 {
			m.Ignore[b] = append([]vf14Ignore{{Line: "# zoekt ignore file of " + b}}, vf14IgnoreLines(r)...)
			var lines []string
			for _, l := range m.Ignore[b] {
				lines = append(lines, l.Line)
			}
			t[".sourcegraph/ignore"] = vf14Entry{Mode: "100644", Content: []byte(strings.Join(lines, "\n") + []string{"\n", ""}[r.IntN(2)])}
		}
		m.Trees[b] = t
	}
	// which branches are indexed
	perm := r.Perm(len(m.Branches))
	n := 1 + r.IntN(len(m.Branches))
	if n == 1 && r.IntN(3) != 0 {
		n = 2
	}
	for _, i := range perm[:n] {
		m.Indexed = append(m.Indexed, m.Branches[i])
	}
	if r.IntN(5) == 0 {
		m.Indexed = append(m.Indexed, "HEAD")
	}
	// fast-import stream
	var s bytes.Buffer
	for bi, b := range m.Branches {
		fmt.Fprintf(&s, "commit refs/heads/%s\ncommitter Verif <verif@example.com> %d +0000\ndata 5\ntree\n", b, 1700000000+bi)
		for _, p := range vf14Keys(m.Trees[b]) {
			e := m.Trees[b][p]
			if e.Mode == "160000" {
				fmt.Fprintf(&s, "M 160000 %s %s\n", e.Link, vf14Quote(p))
				continue
			}
			fmt.Fprintf(&s, "M %s inline %s\ndata %d\n", e.Mode, vf14Quote(p), len(e.Content))
			s.Write(e.Content)
			s.WriteByte('\n')
		}
		s.WriteByte('\n')
	}
	m.Stream = s.String()
	return m
}

func (m *vf14Repo) describe() any {
	trees := map[string]any{}
	for b, t := range m.Trees {
		l := []string{}
		for _, p := range vf14Keys(t) {
			e := t[p]
			if e.Mode == "160000" {
				l = append(l, fmt.Sprintf("%s %s -> commit %s", e.Mode, p, e.Link))
			} else {
				l = append(l, fmt.Sprintf("%s %s (%d bytes) %q", e.Mode, p, len(e.Content), vf14Clip(string(e.Content), 48)))
			}
		}
		trees[b] = l
	}
	var large []string
	for _, l := range m.Large {
		large = append(large, l.Pattern)
	}
	return map[string]any{"branches": m.Branches, "indexed": m.Indexed, "size_max": m.SizeMax, "large_files": large, "trees": trees,
		"fast_import": m.Stream, "replay": "git init -q --bare -b main r.git; git -C r.git fast-import < fast_import; IndexGitRepo{RepoDir: r.git, Branches: indexed, BranchPrefix: refs/heads, BuildOptions{SizeMax, LargeFiles, DisableCTags}} with ZOEKT_DISABLE_CATFILE_BATCH=true / false"}
}

var vf14Attempt = regexp.MustCompile(`attempting to index (\d+) total files \((\d+) via cat-file, (\d+) via go-git\)`)

func vf14ReadDir(dir string) ([]vf14Doc, error) {
	s, err := search.NewDirectorySearcher(dir)
	if err != nil {
		return nil, err
	}
	defer s.Close()
	res, err := s.Search(context.Background(), &query.Const{Value: true}, &zoekt.SearchOptions{Whole: true})
	if err != nil {
		return nil, err
	}
	if res.Stats.Crashes > 0 {
		return nil, fmt.Errorf("Stats.Crashes=%d", res.Stats.Crashes)
	}
	var out []vf14Doc
	for _, f := range res.Files {
		br := append([]string(nil), f.Branches...)
		sort.Strings(br)
		out = append(out, vf14Doc{Name: f.FileName, Content: string(f.Content), Branches: br})
	}
	sort.Slice(out, func(i, j int) bool { return out[i].key() < out[j].key() })
	return out, nil
}

// vf14Diff compares served documents with the expectation; kind is "" when equal.
func vf14Diff(want, got []vf14Doc, alt map[string]string) (kind, detail string) {
	w := map[string]int{}
	for _, d := range want {
		w[d.key()]++
	}
	g := map[string]int{}
	for _, d := range got {
		k := d.key()
		if w[k] == 0 {
			// the other acceptable explanation of a too-large binary blob
			for wk, a := range alt {
				if a == d.Content && wk == (vf14Doc{d.Name, vf14TooLarge, d.Branches}).key() {
					k = wk
				}
			}
		}
		g[k]++
	}
	var miss, extra []string
	for _, d := range want {
		if g[d.key()] < w[d.key()] {
			miss = append(miss, fmt.Sprintf("%s %v %q", d.Name, d.Branches, vf14Clip(d.Content, 40)))
		}
	}
	for _, d := range got {
		k := d.key()
		if w[k] == 0 && g[k] > 0 {
			extra = append(extra, fmt.Sprintf("%s %v %q", d.Name, d.Branches, vf14Clip(d.Content, 40)))
		} else if g[k] > w[k] {
			extra = append(extra, fmt.Sprintf("(duplicate) %s %v %q", d.Name, d.Branches, vf14Clip(d.Content, 40)))
		}
	}
	if len(miss) == 0 && len(extra) == 0 {
		return "", ""
	}
	// classify by what is wrong with the first offending path
	kind = "missing"
	if len(miss) == 0 {
		kind = "extra"
	} else if len(extra) > 0 {
		mn := strings.SplitN(miss[0], " ", 2)[0]
		for _, e := range extra {
			if strings.HasPrefix(strings.TrimPrefix(e, "(duplicate) "), mn+" ") {
				kind = "wrong content or branches"
			}
		}
	}
	return kind, fmt.Sprintf("expected but not served: %q; served but not expected: %q", miss, extra)
}

func vf14RepoCase(rec *kit.Rec, lg *vf14Log, ri int) {
	r := rec.Rand(uint64(14000 + ri))
	m := vf14Generate(r)
	root := filepath.Join(rec.Work, fmt.Sprintf("c14-%d", ri))
	defer os.RemoveAll(root)
	repo := filepath.Join(root, "r.git")
	if err := os.MkdirAll(repo, 0o755); err != nil {
		rec.Violation("harness/mkdir", err.Error(), nil)
		return
	}
	if _, err := vf14Git(repo, nil, "init", "-q", "--bare", "-b", "main"); err != nil {
		rec.Violation("harness/git-init", err.Error(), nil)
		return
	}
	limit := "0"
	if m.looseObjs {
		limit = "100000"
	}
	if _, err := vf14Git(repo, []byte(m.Stream), "-c", "fastimport.unpackLimit="+limit, "fast-import", "--quiet"); err != nil {
		rec.Violation("harness/fast-import", err.Error(), m.describe())
		return
	}
	// self check of the generator: git holds the trees of the model
	for _, b := range m.Branches {
		out, err := vf14Git(repo, nil, "ls-tree", "-r", "-z", "refs/heads/"+b)
		if err != nil {
			rec.Violation("harness/ls-tree", err.Error(), m.describe())
			return
		}
		n := 0
		for _, x := range strings.Split(out, "\x00") {
			if x == "" {
				continue
			}
			n++
			tab := strings.IndexByte(x, '\t')
			if e, ok := m.Trees[b][x[tab+1:]]; !ok || !strings.HasPrefix(x, e.Mode+" ") {
				rec.Violation("harness/model-differs-from-git", fmt.Sprintf("branch %s: %q", b, x), m.describe())
				return
			}
		}
		if n != len(m.Trees[b]) {
			rec.Violation("harness/model-differs-from-git", fmt.Sprintf("branch %s: git %d entries, model %d", b, n, len(m.Trees[b])), m.describe())
			return
		}
	}
	want, alt := m.expected()
	var large []string
	for _, l := range m.Large {
		large = append(large, l.Pattern)
	}
	served := map[string][]vf14Doc{}
	taken := map[string]bool{}
	for _, mode := range []string{"go-git", "cat-file"} {
		os.Setenv("ZOEKT_DISABLE_CATFILE_BATCH", map[string]string{"go-git": "true", "cat-file": "false"}[mode])
		dir := filepath.Join(root, "idx-"+mode)
		opts := Options{
			RepoDir:      repo,
			Branches:     append([]string(nil), m.Indexed...),
			BranchPrefix: "refs/heads",
			BuildOptions: index.Options{
				IndexDir:              dir,
				RepositoryDescription: zoekt.Repository{Name: fmt.Sprintf("verif/c14-%d", ri), ID: 14},
				SizeMax:               m.SizeMax,
				LargeFiles:            append([]string(nil), large...),
				DisableCTags:          true,
				Parallelism:           1,
				ShardMax:              []int{1 << 20, 600}[r.IntN(2)],
			},
		}
		lg.take()
		var ierr error
		msg, stack, panicked := kit.Guard(func() { _, ierr = IndexGitRepo(opts) })
		lines := lg.take()
		os.Unsetenv("ZOEKT_DISABLE_CATFILE_BATCH")
		if panicked {
			rec.Violation("panic/"+mode+"/"+kit.PanicSite(stack)+"/"+kit.MsgClass(msg), msg, map[string]any{"repo": m.describe(), "stack": stack})
			return
		}
		if ierr != nil {
			rec.Violation("index error/"+mode+"/"+kit.MsgClass(ierr.Error()), ierr.Error(), m.describe())
			return
		}
		via := [3]int{}
		for _, l := range lines {
			if mm := vf14Attempt.FindStringSubmatch(l); mm != nil {
				for i := range via {
					via[i], _ = strconv.Atoi(mm[i+1])
				}
			}
		}
		rec.Count("blobs_read_via_cat-file", int64(via[1]))
		rec.Count("blobs_read_via_go-git", int64(via[2]))
		if mode == "go-git" && via[1] != 0 {
			rec.Violation("harness/go-git mode used cat-file", strings.Join(lines, "\n"), m.describe())
			return
		}
		taken[mode] = via[1] > 0
		if mode == "cat-file" {
			if taken[mode] {
				rec.Count("index_runs_through_cat-file_batch", 1)
			} else if len(want) > 0 {
				rec.Count("cat-file_requested_but_fell_back_to_go-git(no --filter in git 2.39)", 1)
			}
		}
		got, err := vf14ReadDir(dir)
		if err != nil {
			rec.Violation("search error/"+mode+"/"+kit.MsgClass(err.Error()), err.Error(), m.describe())
			return
		}
		served[mode] = got
		rec.Count("documents_compared", int64(len(got)))
		if kind, detail := vf14Diff(want, got, alt); kind != "" {
			path := mode
			if mode == "cat-file" && !taken[mode] {
				path = "go-git(fallback)"
			}
			rec.Violation("documents differ from the branch trees/"+path+"/"+kind, detail, map[string]any{"repo": m.describe(), "expected": want, "served": got})
			return
		}
	}
	if !sameDocs(served["go-git"], served["cat-file"]) {
		rec.Violation("reading paths disagree", fmt.Sprintf("go-git: %d documents, cat-file: %d documents", len(served["go-git"]), len(served["cat-file"])),
			map[string]any{"repo": m.describe(), "go-git": served["go-git"], "cat-file": served["cat-file"]})
		return
	}
	for f := range m.feat {
		rec.Count("feature/"+f, 1)
	}
	batch := "cat-file"
	if !taken["cat-file"] {
		batch = "fallback"
	}
	key := fmt.Sprintf("repo|%s|br=%d|%s", strings.Join(vf14Keys(m.feat), ","), len(m.Indexed), batch)
	rec.Case(key, len(m.Indexed) >= 2 && len(m.feat) >= 4 && len(want) >= 3, func() any {
		return map[string]any{"part": "A", "repo": ri, "indexed": m.Indexed, "features": vf14Keys(m.feat), "documents": len(want), "size_max": m.SizeMax, "large_files": large, "cat_file_path_taken": taken["cat-file"]}
	})
}

func sameDocs(a, b []vf14Doc) bool {
	if len(a) != len(b) {
		return false
	}
	for i := range a {
		if a[i].key() != b[i].key() {
			return false
		}
	}
	return true
}

// ---------------------------------------------------------------------------
// Part B: catfileReader on synthetic streams

// vf14Chunky hands out the stream in random small pieces, like a pipe does.
type vf14Chunky struct {
	r    *rand.Rand
	data []byte
	max  int
}

func (c *vf14Chunky) Read(p []byte) (int, error) {
	if len(c.data) == 0 {
		return 0, io.EOF
	}
	n := 1 + c.r.IntN(c.max)
	n = min(n, len(p), len(c.data))
	copy(p, c.data[:n])
	c.data = c.data[n:]
	return n, nil
}

const vf14Alphabet = "\n\n missing excluded blob 0123456789abcdef\x00"

type vf14Obj struct {
	Kind    string // blob missing excluded
	Content []byte
}

func vf14Stream(rec *kit.Rec, si int) {
	r := rec.Rand(uint64(1400000 + si))
	bufSize := []int{16, 17, 64, 300, 4096}[r.IntN(5)]
	var objs []vf14Obj
	var stream bytes.Buffer
	sizeClasses := map[string]bool{}
	for i, n := 0, 1+r.IntN(9); i < n; i++ {
		oid := fmt.Sprintf("%040x", r.Uint64())
		switch k := r.IntN(10); {
		case k == 0:
			objs = append(objs, vf14Obj{Kind: "missing"})
			fmt.Fprintf(&stream, "%s missing\n", oid)
		case k == 1:
			objs = append(objs, vf14Obj{Kind: "excluded"})
			fmt.Fprintf(&stream, "%s excluded\n", oid)
		default:
			var size int
			switch c := r.IntN(7); c {
			case 0:
				size = 0
				sizeClasses["0"] = true
			case 1:
				size = 1 + r.IntN(2)
				sizeClasses["1-2"] = true
			case 2:
				size = bufSize - 2 + r.IntN(5)
				sizeClasses["~buffer"] = true
			case 3:
				size = 2*bufSize - 2 + r.IntN(5)
				sizeClasses["~2*buffer"] = true
			default:
				size = r.IntN(3 * bufSize)
				sizeClasses["random"] = true
			}
			size = max(size, 0)
			b := make([]byte, size)
			for j := range b {
				// content that looks like protocol text as often as possible
				b[j] = vf14Alphabet[r.IntN(len(vf14Alphabet))]
			}
			if size > 20 && r.IntN(3) == 0 {
				copy(b[size-9:], " missing\n")
			}
			objs = append(objs, vf14Obj{Kind: "blob", Content: b})
			fmt.Fprintf(&stream, "%s blob %d\n", oid, size)
			stream.Write(b)
			stream.WriteByte('\n')
		}
	}
	src := &vf14Chunky{r: r, data: append([]byte(nil), stream.Bytes()...), max: 1 + r.IntN(2*bufSize)}
	cr := &catfileReader{reader: bufio.NewReaderSize(src, bufSize)}
	behaviours := map[string]bool{}
	var trace []string
	fail := func(sig, what string) {
		rec.Violation("catfileReader/"+sig, what, map[string]any{"bufio_size": bufSize, "objects": objs, "stream": stream.String(), "consumer": trace,
			"replay": "cr := &catfileReader{reader: bufio.NewReaderSize(<reader handing out stream in pieces>, bufio_size)}; apply the consumer steps"})
	}
	ok := true
	msg, stack, panicked := kit.Guard(func() {
		for i, o := range objs {
			size, missing, excluded, err := cr.Next()
			if err != nil {
				fail("Next error", fmt.Sprintf("object %d: Next: %v", i, err))
				ok = false
				return
			}
			if missing != (o.Kind == "missing") || excluded != (o.Kind == "excluded") || (o.Kind == "blob" && size != len(o.Content)) {
				fail("wrong header", fmt.Sprintf("object %d (%s, %d bytes): Next = size %d missing %v excluded %v", i, o.Kind, len(o.Content), size, missing, excluded))
				ok = false
				return
			}
			if o.Kind != "blob" {
				trace = append(trace, o.Kind)
				continue
			}
			var got []byte
			wantN := size
			bh := []string{"read-full", "read-all", "partial", "nothing", "small-reads-to-eof", "zero-length-read"}[r.IntN(6)]
			behaviours[bh] = true
			trace = append(trace, bh)
			var rerr error
			switch bh {
			case "read-full":
				got = make([]byte, size)
				_, rerr = io.ReadFull(cr, got)
			case "read-all":
				got, rerr = io.ReadAll(cr)
			case "partial":
				wantN = 0
				if size > 0 {
					wantN = r.IntN(size)
				}
				got = make([]byte, wantN)
				_, rerr = io.ReadFull(cr, got)
			case "nothing":
				wantN = 0
			case "zero-length-read":
				n, err := cr.Read(nil)
				if n != 0 || (err != nil && !(size == 0 && err == io.EOF)) {
					rerr = fmt.Errorf("Read(nil) = %d, %v", n, err)
				}
				wantN = 0
			case "small-reads-to-eof":
				for {
					p := make([]byte, 1+r.IntN(7))
					n, err := cr.Read(p)
					got = append(got, p[:n]...)
					if err == io.EOF {
						break
					}
					if err != nil {
						rerr = err
						break
					}
					if len(got) > size+10 {
						break
					}
				}
			}
			if rerr != nil {
				fail("Read error", fmt.Sprintf("object %d (%d bytes) consumer %s: %v", i, size, bh, rerr))
				ok = false
				return
			}
			if !bytes.Equal(got, o.Content[:wantN]) {
				fail("wrong bytes", fmt.Sprintf("object %d (%d bytes) consumer %s: delivered %d bytes %q, blob is %q", i, size, bh, len(got), vf14Clip(string(got), 60), vf14Clip(string(o.Content), 60)))
				ok = false
				return
			}
		}
		if _, _, _, err := cr.Next(); err != io.EOF {
			fail("no EOF at the end", fmt.Sprintf("Next after the last object: %v", err))
			ok = false
		}
	})
	if panicked {
		fail("panic/"+kit.PanicSite(stack), msg)
		return
	}
	if !ok {
		return
	}
	rec.Count("catfile_streams", 1)
	rec.Count("catfile_objects", int64(len(objs)))
	for b := range behaviours {
		rec.Seen("catfile_consumer_behaviours", b)
	}
	key := fmt.Sprintf("stream|buf=%d|%s|%s", bufSize, strings.Join(vf14Keys(behaviours), ","), strings.Join(vf14Keys(sizeClasses), ","))
	rec.Case(key, len(objs) >= 3 && len(behaviours) >= 2, func() any {
		return map[string]any{"part": "B", "objects": len(objs), "bufio_size": bufSize, "consumer": trace}
	})
}

// ---------------------------------------------------------------------------
// Part C: contentSlab aliasing monitor

func vf14Slab(rec *kit.Rec, si int) {
	r := rec.Rand(uint64(1490000 + si))
	capN := []int{64, 256, 4096}[r.IntN(3)]
	slab := newContentSlab(capN)
	type rec1 struct {
		buf  []byte
		n    int
		fill byte
	}
	var all []rec1
	classes := map[string]bool{}
	bad := ""
	for id, n := 0, 20+r.IntN(200); id < n && bad == ""; id++ {
		var sz int
		switch r.IntN(8) {
		case 0:
			sz = 0
			classes["0"] = true
		case 1:
			sz = capN
			classes["=cap"] = true
		case 2:
			sz = capN + 1 + r.IntN(capN)
			classes[">cap"] = true
		case 3:
			sz = capN - 1 - r.IntN(3)
			classes["~cap"] = true
		default:
			sz = 1 + r.IntN(capN/4)
			classes["small"] = true
		}
		b := slab.alloc(sz)
		if len(b) != sz {
			bad = fmt.Sprintf("alloc(%d) returned len %d", sz, len(b))
			break
		}
		if cap(b) != sz && sz > 0 {
			bad = fmt.Sprintf("alloc(%d) returned cap %d: appending would write into the neighbour", sz, cap(b))
			break
		}
		fill := byte(id*7 + 13)
		for j := range b {
			b[j] = fill
		}
		all = append(all, rec1{b, sz, fill})
		if r.IntN(6) == 0 && len(all) > 1 {
			// what a consumer may legitimately do with a capped slice
			k := r.IntN(len(all))
			_ = append(all[k].buf, "APPENDED-BY-CONSUMER"...)
			classes["append"] = true
		}
	}
	if bad == "" {
		for id, a := range all {
			if len(a.buf) != a.n {
				bad = fmt.Sprintf("allocation %d changed length", id)
				break
			}
			for j, c := range a.buf {
				if c != a.fill {
					bad = fmt.Sprintf("allocation %d (%d bytes) byte %d is %#x, was filled with %#x: slices alias", id, a.n, j, c, a.fill)
					break
				}
			}
			if bad != "" {
				break
			}
		}
	}
	if bad != "" {
		sizes := []int{}
		for _, a := range all {
			sizes = append(sizes, a.n)
		}
		rec.Violation("contentSlab/aliasing or wrong length", bad, map[string]any{"slab_cap": capN, "alloc_sizes": sizes})
		return
	}
	rec.Count("slab_runs", 1)
	rec.Count("slab_allocations", int64(len(all)))
	rec.Case(fmt.Sprintf("slab|cap=%d|%s|n=%d", capN, strings.Join(vf14Keys(classes), ","), len(all)/50), len(all) >= 20 && len(classes) >= 3, func() any {
		return map[string]any{"part": "C", "slab_cap": capN, "allocations": len(all), "size_classes": vf14Keys(classes)}
	})
}

func TestVerif_C14(t *testing.T) {
	rec := kit.Open("C14")
	defer rec.Done()
	lg := &vf14Log{}
	old := log.Writer()
	log.SetOutput(lg)
	defer log.SetOutput(old)

	nStream, nSlab, nRepo := rec.N(600, 20000), rec.N(300, 5000), rec.N(40, 600)
	// two of each part first, so that the evidence samples show all three
	for i := 0; i < 2; i++ {
		vf14RepoCase(rec, lg, i)
		vf14Stream(rec, i)
		vf14Slab(rec, i)
	}
	for si := 2; si < nStream; si++ {
		vf14Stream(rec, si)
	}
	for si := 2; si < nSlab; si++ {
		vf14Slab(rec, si)
	}
	for ri := 2; ri < nRepo; ri++ {
		vf14RepoCase(rec, lg, ri)
	}
}
