package verifkit

// eval.go: the reference evaluator. It decides whether a query is true on a
// document of the model by scanning whole names/contents — no index, no trigram
// logic, no zoekt evaluation code. Regular expressions are run by Go's standard
// `regexp` engine compiled from the regexp *source* the generator produced (zoekt
// uses grafana/regexp or go-re2 on a pattern that went through its own printer).

import (
	"fmt"
	"regexp"
	"regexp/syntax"
	"sort"
	"strings"
	"sync"
	"unicode"
	"unicode/utf8"

	"github.com/sourcegraph/zoekt/query"
)

// IV is a half-open byte interval.
type IV struct{ S, E int }

type Evaluator struct {
	mu sync.Mutex
	// Src maps a regexp atom to the source text it was generated from.
	Src   map[*syntax.Regexp]string
	cache map[string]*regexp.Regexp
	// Corpus is needed for type:repo sub-queries.
	Corpus *Corpus
}

func NewEvaluator(c *Corpus) *Evaluator {
	return &Evaluator{Src: map[*syntax.Regexp]string{}, cache: map[string]*regexp.Regexp{}, Corpus: c}
}

// compile returns the reference engine for a regexp atom.
func (e *Evaluator) compile(re *syntax.Regexp, caseSensitive bool) *regexp.Regexp {
	e.mu.Lock()
	defer e.mu.Unlock()
	src, ok := e.Src[re]
	if !ok {
		// queries that came from query.Parse: print with the standard library's printer
		src = re.String()
	}
	key := src
	pat := "(?m)" + src
	if !caseSensitive {
		pat = "(?m)(?i)" + src
		key = "i:" + src
	}
	if c, ok := e.cache[key]; ok {
		return c
	}
	c, err := regexp.Compile(pat)
	if err != nil {
		panic(fmt.Sprintf("reference cannot compile %q: %v", pat, err))
	}
	e.cache[key] = c
	return c
}

func (e *Evaluator) plain(src string) *regexp.Regexp {
	e.mu.Lock()
	defer e.mu.Unlock()
	key := "p:" + src
	if c, ok := e.cache[key]; ok {
		return c
	}
	c := regexp.MustCompile(src)
	e.cache[key] = c
	return c
}

// foldEq is simple-case-folding equality of two runes.
func foldEq(a, b rune) bool {
	if a == b {
		return true
	}
	for c := unicode.SimpleFold(a); c != a; c = unicode.SimpleFold(c) {
		if c == b {
			return true
		}
	}
	return false
}

// Occurrences returns all (possibly overlapping) occurrences of pat in text.
func Occurrences(text, pat string, caseSensitive bool) []IV {
	var out []IV
	if caseSensitive {
		for i := 0; i+len(pat) <= len(text); i++ {
			if text[i:i+len(pat)] == pat {
				out = append(out, IV{i, i + len(pat)})
			}
		}
		return out
	}
	pr := []rune(pat)
	for i := range text { // rune starts
		j := i
		ok := true
		for _, p := range pr {
			if j >= len(text) {
				ok = false
				break
			}
			c, sz := utf8.DecodeRuneInString(text[j:])
			if !foldEq(p, c) {
				ok = false
				break
			}
			j += sz
		}
		if ok {
			out = append(out, IV{i, j})
		}
	}
	if len(pr) == 0 {
		out = append(out, IV{len(text), len(text)})
	}
	return out
}

func contains(text, pat string, caseSensitive bool) bool {
	if caseSensitive {
		return strings.Contains(text, pat)
	}
	return len(Occurrences(text, pat, false)) > 0
}

func inSyms(d *Doc, iv IV) bool {
	for _, s := range d.Syms() {
		if iv.S >= s.Start && iv.E <= s.End {
			return true
		}
	}
	return false
}

func rawConfigMask(m map[string]string) uint8 {
	var enc uint8
	for i, f := range []string{"public", "fork", "archived"} {
		var e uint8 = 2
		if m[f] == "1" {
			e = 1
		}
		enc |= e << (2 * uint(i))
	}
	return enc
}

func hasBranch(d *Doc, name string) bool {
	for _, b := range d.Branches {
		if b == name {
			return true
		}
	}
	return false
}

// Match: is q true on document d of repository r?
func (e *Evaluator) Match(q query.Q, r *Repo, d *Doc) bool {
	switch s := q.(type) {
	case *query.And:
		for _, c := range s.Children {
			if !e.Match(c, r, d) {
				return false
			}
		}
		return true
	case *query.Or:
		for _, c := range s.Children {
			if e.Match(c, r, d) {
				return true
			}
		}
		return false
	case *query.Not:
		return !e.Match(s.Child, r, d)
	case *query.Boost:
		return e.Match(s.Child, r, d)
	case *query.Type:
		switch s.Type {
		case query.TypeRepo:
			return e.RepoHas(s.Child, r)
		default:
			return e.Match(s.Child, r, d)
		}
	case *query.Const:
		return s.Value
	case *query.Substring:
		name, content := s.FileName, s.Content
		if name == content {
			name, content = true, true
		}
		if name && contains(d.Name, s.Pattern, s.CaseSensitive) {
			return true
		}
		if content && contains(d.Text(), s.Pattern, s.CaseSensitive) {
			return true
		}
		return false
	case *query.Regexp:
		name, content := s.FileName, s.Content
		if name == content {
			name, content = true, true
		}
		re := e.compile(s.Regexp, s.CaseSensitive)
		if name && re.MatchString(d.Name) {
			return true
		}
		if content && re.MatchString(d.Text()) {
			return true
		}
		return false
	case *query.Symbol:
		return len(e.symbolIVs(s, d)) > 0
	case *query.Branch:
		if s.Pattern == "" {
			return true // an empty branch pattern is no restriction
		}
		if s.Pattern == "HEAD" {
			return hasBranch(d, r.Branches[0].Name)
		}
		for _, b := range d.Branches {
			if s.Exact && b == s.Pattern || !s.Exact && strings.Contains(b, s.Pattern) {
				return true
			}
		}
		return false
	case *query.Repo:
		return e.plain(s.Regexp.String()).MatchString(r.Name)
	case *query.RepoRegexp:
		return e.plain(s.Regexp.String()).MatchString(r.Name)
	case *query.RepoSet:
		return s.Set[r.Name]
	case *query.RepoIDs:
		return s.Repos.Contains(r.ID)
	case *query.BranchesRepos:
		for _, br := range s.List {
			if br.Repos.Contains(r.ID) && hasBranch(d, br.Branch) {
				return true
			}
		}
		return false
	case *query.Language:
		return d.Language == s.Language
	case query.RawConfig:
		return uint8(s)&rawConfigMask(r.RawConfig) == uint8(s)
	case *query.Meta:
		v, ok := r.Metadata[s.Field]
		return ok && e.plain(s.Value.String()).MatchString(v)
	case *query.FileNameSet:
		_, ok := s.Set[d.Name]
		return ok
	}
	panic(fmt.Sprintf("reference evaluator: unknown query node %T", q))
}

// RepoHas: does repository r have a live document on which q is true?
func (e *Evaluator) RepoHas(q query.Q, r *Repo) bool {
	for _, d := range r.Docs {
		if r.Live(d) && e.Match(q, r, d) {
			return true
		}
	}
	return false
}

func (e *Evaluator) symbolIVs(s *query.Symbol, d *Doc) []IV {
	var out []IV
	switch x := s.Expr.(type) {
	case *query.Substring:
		for _, iv := range Occurrences(d.Text(), x.Pattern, x.CaseSensitive) {
			if inSyms(d, iv) {
				out = append(out, iv)
			}
		}
	case *query.Regexp:
		re := e.compile(x.Regexp, x.CaseSensitive)
		text := d.Text()
		for _, sec := range d.Syms() {
			if loc := re.FindStringIndex(text[sec.Start:sec.End]); loc != nil {
				out = append(out, IV{sec.Start + loc[0], sec.Start + loc[1]})
			}
		}
	default:
		panic(fmt.Sprintf("reference evaluator: symbol with %T", s.Expr))
	}
	return out
}

// AtomIVs is the set of intervals a positive atom can contribute on a document.
type AtomIVs struct {
	Name    map[IV]bool
	Content map[IV]bool
}

// PositiveIVs collects, for every atom of q that is not under a negation, all
// intervals at which that atom matches the name / the content of d (all occurrences,
// overlapping ones included; for regexps the engine's successive matches).
func (e *Evaluator) PositiveIVs(q query.Q, d *Doc) AtomIVs {
	a := AtomIVs{Name: map[IV]bool{}, Content: map[IV]bool{}}
	e.posIVs(q, d, &a)
	return a
}

func (e *Evaluator) posIVs(q query.Q, d *Doc, a *AtomIVs) {
	switch s := q.(type) {
	case *query.And:
		for _, c := range s.Children {
			e.posIVs(c, d, a)
		}
	case *query.Or:
		for _, c := range s.Children {
			e.posIVs(c, d, a)
		}
	case *query.Not:
		// negated atoms never have to justify a range
	case *query.Boost:
		e.posIVs(s.Child, d, a)
	case *query.Type:
		if s.Type != query.TypeRepo {
			e.posIVs(s.Child, d, a)
		}
	case *query.Substring:
		name, content := s.FileName, s.Content
		if name == content {
			name, content = true, true
		}
		if name {
			for _, iv := range Occurrences(d.Name, s.Pattern, s.CaseSensitive) {
				a.Name[iv] = true
			}
		}
		if content {
			for _, iv := range Occurrences(d.Text(), s.Pattern, s.CaseSensitive) {
				a.Content[iv] = true
			}
		}
	case *query.Regexp:
		name, content := s.FileName, s.Content
		if name == content {
			name, content = true, true
		}
		re := e.compile(s.Regexp, s.CaseSensitive)
		if name {
			for _, l := range re.FindAllStringIndex(d.Name, -1) {
				a.Name[IV{l[0], l[1]}] = true
			}
		}
		if content {
			for _, l := range re.FindAllStringIndex(d.Text(), -1) {
				a.Content[IV{l[0], l[1]}] = true
			}
		}
	case *query.Symbol:
		for _, iv := range e.symbolIVs(s, d) {
			a.Content[iv] = true
		}
	}
}

// RegexpMatchAt reports whether some regexp atom of q that is not under a negation
// matches exactly text[iv.S:iv.E] when the match is required to START at iv.S (with
// the whole text as context for ^, $ and \b). FindAll only yields the engine's
// successive non-overlapping matches; a literal-like regexp that zoekt evaluates as
// a substring, or the overlap resolution between several atoms, may legitimately
// report another occurrence, which is still "a match of that atom at that position".
func (e *Evaluator) RegexpMatchAt(q query.Q, d *Doc, iv IV, inName bool) bool {
	text := d.Text()
	if inName {
		text = d.Name
	}
	if iv.S < 0 || iv.E > len(text) || iv.S > iv.E || !utf8.ValidString(text[:iv.S]) {
		return false
	}
	found := false
	var walk func(q query.Q)
	walk = func(q query.Q) {
		if found {
			return
		}
		switch s := q.(type) {
		case *query.And:
			for _, c := range s.Children {
				walk(c)
			}
		case *query.Or:
			for _, c := range s.Children {
				walk(c)
			}
		case *query.Boost:
			walk(s.Child)
		case *query.Type:
			if s.Type != query.TypeRepo {
				walk(s.Child)
			}
		case *query.Regexp:
			name, content := s.FileName, s.Content
			if name == content {
				name, content = true, true
			}
			if (inName && !name) || (!inName && !content) {
				return
			}
			e.mu.Lock()
			src, ok := e.Src[s.Regexp]
			e.mu.Unlock()
			if !ok {
				src = s.Regexp.String()
			}
			// pin the start: skip exactly the runes before iv.S, then the atom as group 1
			k := utf8.RuneCountInString(text[:iv.S])
			skip := ""
			if k >= 1000 {
				skip = fmt.Sprintf("(?:.{1000}){%d}", k/1000)
				if k/1000 > 1000 {
					return // beyond what the engine accepts; not needed for these corpora
				}
			}
			skip += fmt.Sprintf(".{%d}", k%1000)
			flags := "(?m)"
			if !s.CaseSensitive {
				flags = "(?m)(?i)"
			}
			pinned, err := regexp.Compile(`\A(?s:` + skip + `)(` + flags + src + `)`)
			if err != nil {
				return
			}
			if m := pinned.FindStringSubmatchIndex(text); m != nil && m[2] == iv.S && m[3] == iv.E {
				found = true
			}
		}
	}
	walk(q)
	return found
}

// GreedyNonOverlapping keeps the leftmost occurrences that do not overlap an already
// kept one (longest first at equal start).
func GreedyNonOverlapping(ivs []IV) []IV {
	sort.Slice(ivs, func(i, j int) bool {
		if ivs[i].S != ivs[j].S {
			return ivs[i].S < ivs[j].S
		}
		return ivs[i].E > ivs[j].E
	})
	var out []IV
	for _, iv := range ivs {
		if len(out) == 0 || out[len(out)-1].E <= iv.S {
			out = append(out, iv)
		}
	}
	return out
}

// RegexpIVs are the reference engine's successive matches of a regexp atom.
func (e *Evaluator) RegexpIVs(s *query.Regexp, text string) []IV {
	re := e.compile(s.Regexp, s.CaseSensitive)
	var out []IV
	for _, l := range re.FindAllStringIndex(text, -1) {
		out = append(out, IV{l[0], l[1]})
	}
	return out
}

// Expected returns the live documents on which q is true, as "repo\x00name\x00content"
// keys with multiplicity.
func (e *Evaluator) Expected(q query.Q) map[string]int {
	out := map[string]int{}
	for _, r := range e.Corpus.Repos {
		for _, d := range r.Docs {
			if r.Live(d) && e.Match(q, r, d) {
				out[DocKey(r.Name, d.Name, d.Text())]++
			}
		}
	}
	return out
}

func DocKey(repo, name, content string) string {
	return repo + "\x00" + name + "\x00" + content
}
