package verifkit

// model.go: the corpus model shared by all search-differential monitors. The model
// is what the generator *intended* to index; the reference evaluator (eval.go) works
// on it alone and never looks at a shard.

import (
	"fmt"
	"math/rand/v2"
	"sort"
	"strings"
	"unicode/utf8"
)

type Sym struct {
	Start, End int // byte offsets into Content
	Kind       string
	Parent     string
	ParentKind string
}

type Doc struct {
	Name     string
	Content  string
	Branches []string // subset of the repository's branch names
	Language string   // always explicit, so language detection is not part of the oracle
	SubRepo  string   // sub-repository path ("" = root)
	Symbols  []Sym    // sorted, non-overlapping
	// Skip: if non-empty the document was handed to the builder with a skip reason and
	// its searchable content is Marker.
	Skip   string
	Marker string
}

// Text is the content a search sees.
func (d *Doc) Text() string {
	if d.Skip != "" {
		return d.Marker
	}
	return d.Content
}

// Syms are the symbols a search sees (skipped documents have none).
func (d *Doc) Syms() []Sym {
	if d.Skip != "" {
		return nil
	}
	return d.Symbols
}

type BranchV struct{ Name, Version string }

type Repo struct {
	Name      string
	ID        uint32
	TenantID  int
	Branches  []BranchV
	RawConfig map[string]string
	Metadata  map[string]string
	Rank      uint16
	SubRepos  map[string]string // path -> sub repository name
	Tombstone bool
	FileTomb  map[string]bool
	FileURL   string
	LineFrag  string
	Docs      []*Doc
}

// Live reports whether doc d of repo r is visible to searches.
func (r *Repo) Live(d *Doc) bool {
	if r.Tombstone {
		return false
	}
	return !r.FileTomb[d.Name]
}

func (r *Repo) BranchNames() []string {
	var out []string
	for _, b := range r.Branches {
		out = append(out, b.Name)
	}
	return out
}

type Corpus struct {
	Repos []*Repo
}

func (c *Corpus) NumDocs() int {
	n := 0
	for _, r := range c.Repos {
		n += len(r.Docs)
	}
	return n
}

// Alphabet -----------------------------------------------------------------------
// Tiny on purpose: trigram collisions, overlaps and rune/byte drift must happen in
// almost every case. All runes here satisfy ToLower/SimpleFold agreement (C01's
// restriction); C08 uses its own alphabet.
var ContentRunes = []rune{'a', 'b', 'c', 'A', 'B', '_', '.', ' ', '\n', 'é', 'É', 'д', '1', 'x'}
var NameRunes = []rune{'a', 'b', 'c', 'A', '_', '.', '/', 'é', 'x', '1'}

type Gen struct {
	R *rand.Rand
	// knobs
	MaxRepos, MaxDocs, MaxLen int
	Multibyte                 bool // include multi-byte runes
	Symbols                   bool
	SkipDocs                  bool // produce documents that the builder will mark as skipped
	SubRepos                  bool
	Tombstones                bool
	Tenants                   int // 0: all TenantID 0... n>0: ids drawn from 1..n
	HeadAnywhere              bool
	// SameNames: with Tenants > 0, a repository may reuse the name of an earlier
	// repository of another tenant (multi-tenant shards are named by id, so two tenants
	// can own repositories of the same name, also inside one compound shard).
	SameNames bool
	// ZeroIDs: some repositories have no numeric id (plain zoekt-index / zoekt-git-index
	// without a repoid, old shards): ID 0.
	ZeroIDs bool
	// CollideIDs: with Tenants > 1, a repository may get the numeric id of an earlier
	// repository of another tenant (ids are only unique per tenant in such an index).
	CollideIDs bool
	prev       []*Repo
	seq        int
}

func NewGen(r *rand.Rand) *Gen {
	return &Gen{R: r, MaxRepos: 4, MaxDocs: 12, MaxLen: 160, Multibyte: true, Symbols: true}
}

func (g *Gen) pick(rs []rune) rune {
	for {
		c := rs[g.R.IntN(len(rs))]
		if !g.Multibyte && c >= utf8.RuneSelf {
			continue
		}
		return c
	}
}

var words = []string{"abc", "abca", "bca", "cab", "aab", "aba", "a_b", "Abc", "aBc", "ab", "ba", "a", "b", "x1", "1x", "éa", "aé", "дa", "abд", "É", "bab", "cba", "abab", "xx", "a.b", "a.a", "b a"}

// Text makes content of about n bytes: words from a tiny vocabulary (so that whole
// patterns repeat within and across documents) mixed with random runes.
func (g *Gen) Text(n int) string {
	var b strings.Builder
	for b.Len() < n {
		switch g.R.IntN(10) {
		case 0, 1, 2, 3:
			w := words[g.R.IntN(len(words))]
			if !g.Multibyte && !isASCII(w) {
				continue
			}
			b.WriteString(w)
		case 4, 5:
			b.WriteByte(' ')
		case 6:
			b.WriteByte('\n')
		default:
			b.WriteRune(g.pick(ContentRunes))
		}
	}
	s := b.String()
	// trailing-newline variety
	switch g.R.IntN(4) {
	case 0:
		s += "\n"
	case 1:
		s = strings.TrimRight(s, "\n")
	}
	return s
}

func isASCII(s string) bool {
	for i := 0; i < len(s); i++ {
		if s[i] >= utf8.RuneSelf {
			return false
		}
	}
	return true
}

// LongText makes content that crosses the 100-rune sampling boundaries with
// multi-byte runes placed just before/at/after them.
func (g *Gen) LongText() string {
	n := 90 + g.R.IntN(230)
	rs := []rune(g.Text(n * 2))
	if len(rs) > n {
		rs = rs[:n]
	}
	for _, b := range []int{98, 99, 100, 101, 198, 199, 200, 201, 300} {
		if b < len(rs) && g.R.IntN(3) == 0 && g.Multibyte {
			rs[b] = []rune{'é', 'д', 'É', '€', '😀'}[g.R.IntN(5)]
		}
	}
	return string(rs)
}

func (g *Gen) Name(used map[string]bool) string {
	for {
		var b strings.Builder
		segs := 1 + g.R.IntN(3)
		for i := 0; i < segs; i++ {
			if i > 0 {
				b.WriteByte('/')
			}
			if g.R.IntN(2) == 0 {
				w := words[g.R.IntN(len(words))]
				if !g.Multibyte && !isASCII(w) {
					w = "ab"
				}
				b.WriteString(w)
			}
			k := g.R.IntN(4)
			for j := 0; j < k; j++ {
				c := g.pick(NameRunes)
				if c == '/' {
					c = 'a'
				}
				b.WriteRune(c)
			}
			if b.Len() == 0 || strings.HasSuffix(b.String(), "/") {
				b.WriteByte('f')
			}
		}
		if g.R.IntN(3) == 0 {
			b.WriteString([]string{".go", ".c", ".txt", ".x"}[g.R.IntN(4)])
		}
		s := b.String()
		if !used[s] {
			used[s] = true
			return s
		}
		// the same path may legitimately occur twice with different branch sets; the
		// caller handles that case explicitly, here names are unique.
	}
}

var Languages = []string{"Go", "C", "Text", "Java"}
var symKinds = []string{"function", "class", "variable", ""}

// Symbols picks sorted non-overlapping sections on rune boundaries, preferring word
// starts so that symbol queries built from corpus words hit.
func (g *Gen) SymbolsFor(content string) []Sym {
	if len(content) == 0 {
		return nil
	}
	var bounds []int
	for i := range content {
		bounds = append(bounds, i)
	}
	bounds = append(bounds, len(content))
	n := g.R.IntN(5)
	var out []Sym
	pos := 0 // index into bounds
	for k := 0; k < n && pos < len(bounds)-1; k++ {
		s := pos + g.R.IntN(min(12, len(bounds)-1-pos))
		e := s + 1 + g.R.IntN(min(6, len(bounds)-1-s))
		if e >= len(bounds) {
			e = len(bounds) - 1
		}
		if e <= s {
			break
		}
		// sections must not contain a newline (ctags symbols are on one line)
		seg := content[bounds[s]:bounds[e]]
		if i := strings.IndexByte(seg, '\n'); i >= 0 {
			pos = s + 1 + utf8.RuneCountInString(seg[:i])
			continue
		}
		out = append(out, Sym{Start: bounds[s], End: bounds[e], Kind: symKinds[g.R.IntN(len(symKinds))], Parent: []string{"", "P", "abc"}[g.R.IntN(3)], ParentKind: []string{"", "class"}[g.R.IntN(2)]})
		pos = e + g.R.IntN(3)
	}
	return out
}

func (g *Gen) Repo(idx int) *Repo {
	g.seq++
	r := &Repo{
		Name: fmt.Sprintf("%s%d", []string{"repo", "github.com/a/b", "abc", "x/ab", "ab"}[g.R.IntN(5)], g.seq),
		ID:   uint32(100 + g.seq),
	}
	if g.ZeroIDs && g.R.IntN(3) == 0 {
		r.ID = 0
	}
	if g.Tenants > 0 {
		r.TenantID = 1 + g.R.IntN(g.Tenants)
		if g.SameNames && g.Tenants > 1 && len(g.prev) > 0 && g.R.IntN(3) == 0 {
			// a name is unique within a tenant: take a tenant that has no repository of it yet
			o := g.prev[g.R.IntN(len(g.prev))]
			taken := map[int]bool{}
			for _, x := range g.prev {
				if x.Name == o.Name {
					taken[x.TenantID] = true
				}
			}
			for t := 1; t <= g.Tenants; t++ {
				if cand := 1 + (r.TenantID+t-1)%g.Tenants; !taken[cand] {
					r.Name, r.TenantID = o.Name, cand
					break
				}
			}
		}
		if g.CollideIDs && g.Tenants > 1 && len(g.prev) > 0 && g.R.IntN(3) == 0 {
			if o := g.prev[g.R.IntN(len(g.prev))]; o.TenantID != r.TenantID {
				r.ID = o.ID
			}
		}
		g.prev = append(g.prev, r)
	}
	nb := 1 + g.R.IntN(3)
	if g.R.IntN(12) == 0 {
		nb = 1 + g.R.IntN(64)
	}
	// "HEAD" is zoekt's alias for the default (first) branch; a branch literally named
	// HEAD therefore only ever appears first (HeadAnywhere lifts this for C18).
	bn := []string{"main", "dev", "b1", "release/ab", "ab", "mai"}
	g.R.Shuffle(len(bn), func(i, j int) { bn[i], bn[j] = bn[j], bn[i] })
	if g.R.IntN(3) > 0 {
		bn = append([]string{"HEAD"}, bn...)
	} else if g.HeadAnywhere {
		bn[g.R.IntN(3)] = "HEAD"
	}
	for i := 0; i < nb; i++ {
		name := fmt.Sprintf("br%d", i)
		if i < len(bn) {
			name = bn[i]
		}
		r.Branches = append(r.Branches, BranchV{Name: name, Version: fmt.Sprintf("%040x", g.R.Uint64())})
	}
	r.RawConfig = map[string]string{}
	for _, k := range []string{"public", "fork", "archived"} {
		switch g.R.IntN(3) {
		case 0:
			r.RawConfig[k] = "1"
		case 1:
			r.RawConfig[k] = "0"
		}
	}
	if g.R.IntN(3) == 0 {
		r.RawConfig["priority"] = fmt.Sprint(g.R.IntN(5))
	}
	if g.R.IntN(2) == 0 {
		r.Metadata = map[string]string{}
		for _, k := range []string{"k", "team", "x"} {
			if g.R.IntN(2) == 0 {
				r.Metadata[k] = []string{"a", "ab", "abc", "b", ""}[g.R.IntN(5)]
			}
		}
	}
	r.Rank = uint16(g.R.IntN(4) * 20000)
	r.FileURL = "http://" + r.Name + "/{{.Version}}/{{.Path}}"
	r.LineFrag = "#L{{.LineNumber}}"
	if g.SubRepos && g.R.IntN(3) == 0 {
		r.SubRepos = map[string]string{"sub": r.Name + "-sub"}
		if g.R.IntN(2) == 0 {
			r.SubRepos["a/deps"] = r.Name + "-deps"
		}
	}
	return r
}

// Doc makes one document for r.
func (g *Gen) Doc(r *Repo, used map[string]bool) *Doc {
	d := &Doc{Name: g.Name(used)}
	switch g.R.IntN(12) {
	case 0:
		d.Content = ""
	case 1:
		d.Content = g.LongText()
	case 2:
		d.Content = strings.ReplaceAll(g.Text(g.R.IntN(g.MaxLen)), "\n", "\r\n")
	case 3:
		d.Content = g.Text(g.R.IntN(6))
	default:
		d.Content = g.Text(g.R.IntN(g.MaxLen))
	}
	// branches: non-empty subset
	for _, b := range r.Branches {
		if g.R.IntN(2) == 0 {
			d.Branches = append(d.Branches, b.Name)
		}
	}
	if len(d.Branches) == 0 {
		d.Branches = []string{r.Branches[g.R.IntN(len(r.Branches))].Name}
	}
	d.Language = Languages[g.R.IntN(len(Languages))]
	if g.Symbols && g.R.IntN(2) == 0 {
		d.Symbols = g.SymbolsFor(d.Content)
	}
	if len(r.SubRepos) > 0 && g.R.IntN(3) == 0 {
		var paths []string
		for p := range r.SubRepos {
			paths = append(paths, p)
		}
		sort.Strings(paths)
		p := paths[g.R.IntN(len(paths))]
		d.SubRepo = p
		base := d.Name
		d.Name = p + "/" + base
		for used[d.Name] {
			d.Name += "x"
		}
		used[d.Name] = true
	}
	return d
}

// Corpus makes a corpus in which every repository has at least one document.
func (g *Gen) Corpus() *Corpus {
	c := &Corpus{}
	nr := 1 + g.R.IntN(g.MaxRepos)
	for i := 0; i < nr; i++ {
		r := g.Repo(i)
		used := map[string]bool{}
		nd := 1 + g.R.IntN(g.MaxDocs)
		for j := 0; j < nd; j++ {
			d := g.Doc(r, used)
			r.Docs = append(r.Docs, d)
			// same path again with other content on the complementary branches
			if len(r.Branches) > 1 && len(d.Branches) < len(r.Branches) && d.SubRepo == "" && g.R.IntN(6) == 0 {
				have := map[string]bool{}
				for _, b := range d.Branches {
					have[b] = true
				}
				d2 := &Doc{Name: d.Name, Content: g.Text(g.R.IntN(g.MaxLen)), Language: d.Language}
				for _, b := range r.Branches {
					if !have[b.Name] {
						d2.Branches = append(d2.Branches, b.Name)
					}
				}
				r.Docs = append(r.Docs, d2)
			}
		}
		if g.Tombstones {
			if g.R.IntN(5) == 0 {
				r.Tombstone = true
			}
			if g.R.IntN(4) == 0 {
				r.FileTomb = map[string]bool{r.Docs[g.R.IntN(len(r.Docs))].Name: true}
			}
		}
		c.Repos = append(c.Repos, r)
	}
	return c
}
