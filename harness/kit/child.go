package verifkit

// child.go: crash containment. Properties whose statement is "never crashes" run
// their cases in child processes (the test binary re-executes itself): failures
// that recover() never sees — fatal error, SIGSEGV on unmapped memory, log.Fatal,
// os.Exit — kill only the child, and the parent classifies exit status + the last
// case the child logged before calling into zoekt.

import (
	"bufio"
	"context"
	"encoding/json"
	"errors"
	"fmt"
	"os"
	"os/exec"
	"path/filepath"
	"strings"
	"syscall"
	"time"
)

// ChildMode is the mode string passed to a re-executed test binary ("" in the parent).
func ChildMode() string { return os.Getenv("VERIF_CHILD") }

// ChildArg is the argument string passed along with the mode.
func ChildArg() string { return os.Getenv("VERIF_CHILD_ARG") }

type ChildResult struct {
	Exit     int    // exit code (-1 when killed by a signal)
	Signal   string // signal name when killed
	TimedOut bool   // the generous wall-clock watchdog fired: inconclusive, not a verdict
	Done     bool   // the child wrote its childdone record
	LastCase string // last line the child wrote with LogCase before it ended
	Tail     string // tail of combined stdout/stderr
	LogPath  string
}

// Crashed: the child ended abnormally (not by the watchdog).
func (c ChildResult) Crashed() bool { return !c.TimedOut && (c.Exit != 0 || !c.Done) }

// CrashClass extracts a stable class from a crashed child's output: the first
// "panic:" / "fatal error:" line and the first zoekt frame after it.
func (c ChildResult) CrashClass() string {
	lines := strings.Split(c.Tail, "\n")
	kind := ""
	for i, l := range lines {
		if strings.HasPrefix(l, "panic:") || strings.HasPrefix(l, "fatal error:") || strings.Contains(l, "unexpected fault address") || strings.HasPrefix(l, "SIGSEGV") || strings.HasPrefix(l, "SIGBUS") {
			if kind == "" {
				kind = MsgClass(l)
			}
			for _, m := range lines[i:] {
				m = strings.TrimSpace(m)
				if strings.HasPrefix(m, "github.com/sourcegraph/zoekt") && !strings.Contains(m, "verifkit") && !strings.Contains(m, "verifcheck") && !strings.Contains(m, "zz_verif") && !strings.Contains(m, "TestVerif") {
					if j := strings.LastIndex(m, "("); j > 0 {
						m = m[:j]
					}
					return kind + " @ " + strings.TrimPrefix(m, "github.com/sourcegraph/zoekt")
				}
			}
			return kind
		}
	}
	if c.Signal != "" {
		return "killed by " + c.Signal
	}
	return fmt.Sprintf("exit %d", c.Exit)
}

// RunChild re-executes the running test binary with -test.run '^<testName>$' in
// child mode. The child's record stream is merged into r. extraEnv entries are
// "K=V". The watchdog is wall-clock and generous; its firing is inconclusive.
func (r *Rec) RunChild(testName, mode, arg string, extraEnv []string, watchdog time.Duration) ChildResult {
	return r.RunChildBin(os.Args[0], testName, mode, arg, extraEnv, watchdog)
}

// RunChildBin is RunChild for another test binary (built by the driver from the
// check's "also_tests" into $VERIF_BIN): a white-box part of a check that has to live
// in a zoekt package of its own. The child uses the same record protocol.
func (r *Rec) RunChildBin(bin, testName, mode, arg string, extraEnv []string, watchdog time.Duration) ChildResult {
	r.mu.Lock()
	r.counters["children"]++
	n := r.counters["children"]
	r.mu.Unlock()
	dir := filepath.Join(r.Work, "children")
	_ = os.MkdirAll(dir, 0o755)
	base := filepath.Join(dir, fmt.Sprintf("%s-%d", mode, n))
	outp := base + ".jsonl"
	logp := base + ".log"
	casep := base + ".case"
	ctx, cancel := context.WithTimeout(context.Background(), watchdog)
	defer cancel()
	cmd := exec.CommandContext(ctx, bin, "-test.run", "^"+testName+"$", "-test.timeout", "0")
	cmd.Env = append(os.Environ(),
		"VERIF_CHILD="+mode, "VERIF_CHILD_ARG="+arg, "VERIF_OUT="+outp, "VERIF_CASELOG="+casep,
		"VERIF_WORK="+filepath.Join(r.Work, fmt.Sprintf("child-%s-%d", mode, n)),
		"GOTRACEBACK=all")
	cmd.Env = append(cmd.Env, extraEnv...)
	lf, err := os.Create(logp)
	if err != nil {
		panic(err)
	}
	cmd.Stdout = lf
	cmd.Stderr = lf
	cmd.SysProcAttr = &syscall.SysProcAttr{Setpgid: true}
	cmd.Cancel = func() error { return syscall.Kill(-cmd.Process.Pid, syscall.SIGKILL) }
	runErr := cmd.Run()
	lf.Close()
	res := ChildResult{LogPath: logp}
	if ctx.Err() != nil {
		res.TimedOut = true
	}
	var ee *exec.ExitError
	if errors.As(runErr, &ee) {
		res.Exit = ee.ExitCode()
		if ws, ok := ee.Sys().(syscall.WaitStatus); ok && ws.Signaled() {
			res.Signal = ws.Signal().String()
		}
	} else if runErr != nil {
		res.Exit = -2
	}
	res.Done = r.MergeChild(outp)
	if b, err := os.ReadFile(casep); err == nil {
		res.LastCase = strings.TrimSpace(string(b))
	}
	if b, err := os.ReadFile(logp); err == nil {
		if len(b) > 12000 {
			// keep head of the crash (first 6k after the first panic/fatal marker) and the tail
			s := string(b)
			i := strings.Index(s, "panic:")
			if j := strings.Index(s, "fatal error:"); j >= 0 && (i < 0 || j < i) {
				i = j
			}
			if i < 0 {
				i = len(s) - 12000
			}
			e := i + 12000
			if e > len(s) {
				e = len(s)
			}
			res.Tail = s[i:e]
		} else {
			res.Tail = string(b)
		}
	}
	os.RemoveAll(filepath.Join(r.Work, fmt.Sprintf("child-%s-%d", mode, n)))
	if !res.Crashed() {
		os.Remove(logp)
		os.Remove(outp)
		os.Remove(casep)
	}
	return res
}

// LogCase is called by a child *before* it hands a case to the code under test; the
// parent reads it back when the child dies. The write is synchronous and replaces
// the previous content.
func LogCase(v any) {
	p := os.Getenv("VERIF_CASELOG")
	if p == "" {
		return
	}
	b, err := json.Marshal(v)
	if err != nil {
		b = []byte(fmt.Sprintf("%q", fmt.Sprint(v)))
	}
	f, err := os.OpenFile(p, os.O_CREATE|os.O_WRONLY|os.O_TRUNC, 0o644)
	if err != nil {
		return
	}
	w := bufio.NewWriter(f)
	w.Write(b)
	w.Flush()
	f.Close()
}
