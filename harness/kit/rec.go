// Package verifkit is the shared runtime-monitoring kit of /verif. It is
// injected into the zoekt module with `go build -overlay` as
// github.com/sourcegraph/zoekt/internal/verifkit and never lives in /repo.
//
// rec.go: the record stream every harness writes and the driver (vcheck) reads.
package verifkit

import (
	"encoding/json"
	"fmt"
	"hash/fnv"
	"math/rand/v2"
	"os"
	"path/filepath"
	"runtime/debug"
	"sort"
	"strconv"
	"strings"
	"sync"
	"time"
)

// Rec accumulates what one run observed. It is safe for concurrent use: monitors
// running in many goroutines share one Rec.
type Rec struct {
	ID   string
	Seed uint64
	Tier string // "quick" | "thorough"
	Work string // scratch directory owned by this run

	mu        sync.Mutex
	out       *os.File
	evals     int64
	distinct  map[uint64]struct{}
	samples   []any
	maxSample int
	counters  map[string]int64
	sets      map[string]map[string]struct{}
	viol      map[string]int // signature -> count
	nviol     int
	replayDir string
	start     time.Time
	closed    bool
}

// Env helpers -----------------------------------------------------------------

func envInt(k string, def int64) int64 {
	if v := os.Getenv(k); v != "" {
		if n, err := strconv.ParseInt(v, 10, 64); err == nil {
			return n
		}
	}
	return def
}

// Quick reports whether the current tier is the quick one.
func (r *Rec) Quick() bool { return r.Tier != "thorough" }

// N picks a workload size by tier.
func (r *Rec) N(quick, thorough int) int {
	if r.Quick() {
		return quick
	}
	return thorough
}

// Open starts a record stream for property id. Environment: VERIF_SEED,
// VERIF_TIER, VERIF_OUT (jsonl path), VERIF_WORK (scratch dir), VERIF_REPLAYS.
func Open(id string) *Rec {
	r := &Rec{
		ID:        id,
		Seed:      uint64(envInt("VERIF_SEED", 1)),
		Tier:      os.Getenv("VERIF_TIER"),
		Work:      os.Getenv("VERIF_WORK"),
		distinct:  map[uint64]struct{}{},
		counters:  map[string]int64{},
		sets:      map[string]map[string]struct{}{},
		viol:      map[string]int{},
		maxSample: 6,
		start:     time.Now(),
		replayDir: os.Getenv("VERIF_REPLAYS"),
	}
	if r.Tier == "" {
		r.Tier = "quick"
	}
	if r.Work == "" {
		d, err := os.MkdirTemp("", "verif-"+id+"-")
		if err != nil {
			panic(err)
		}
		r.Work = d
	}
	_ = os.MkdirAll(r.Work, 0o755)
	if r.replayDir == "" {
		r.replayDir = filepath.Join(r.Work, "replays")
	}
	_ = os.MkdirAll(r.replayDir, 0o755)
	if p := os.Getenv("VERIF_OUT"); p != "" {
		f, err := os.OpenFile(p, os.O_CREATE|os.O_WRONLY|os.O_APPEND, 0o644)
		if err != nil {
			panic(err)
		}
		r.out = f
	} else {
		r.out = os.Stdout
	}
	return r
}

// Rand returns a deterministic PRNG for (seed, stream). Streams let independent
// generators stay stable when one of them changes.
func (r *Rec) Rand(stream uint64) *rand.Rand {
	return rand.New(rand.NewPCG(r.Seed*0x9E3779B97F4A7C15+0x1234567, stream*0xD1B54A32D192ED03+0x89ABCDEF))
}

// NewRand is Rand without a Rec (children that only get a seed).
func NewRand(seed, stream uint64) *rand.Rand {
	return rand.New(rand.NewPCG(seed*0x9E3779B97F4A7C15+0x1234567, stream*0xD1B54A32D192ED03+0x89ABCDEF))
}

func hash64(s string) uint64 {
	h := fnv.New64a()
	h.Write([]byte(s))
	return h.Sum64()
}

// Case counts one evaluated case. key identifies the case for the distinct count;
// nontrivial says whether it is non-trivial by the property's stated rule. sample
// (may be nil) is kept for the evidence if fewer than maxSample are held.
func (r *Rec) Case(key string, nontrivial bool, sample func() any) {
	r.mu.Lock()
	defer r.mu.Unlock()
	r.evals++
	if !nontrivial {
		return
	}
	h := hash64(key)
	if _, ok := r.distinct[h]; ok {
		return
	}
	r.distinct[h] = struct{}{}
	if sample != nil && len(r.samples) < r.maxSample {
		r.samples = append(r.samples, sample())
	}
}

// Count adds to a named counter reported in the evidence.
func (r *Rec) Count(name string, d int64) {
	r.mu.Lock()
	r.counters[name] += d
	r.mu.Unlock()
}

// Max keeps the maximum of a named gauge.
func (r *Rec) Max(name string, v int64) {
	r.mu.Lock()
	if v > r.counters[name] {
		r.counters[name] = v
	}
	r.mu.Unlock()
}

// Seen records membership in a named set; evidence reports the set's size (and
// its members when small).
func (r *Rec) Seen(set, member string) {
	r.mu.Lock()
	m := r.sets[set]
	if m == nil {
		m = map[string]struct{}{}
		r.sets[set] = m
	}
	if len(m) < 100000 {
		m[member] = struct{}{}
	}
	r.mu.Unlock()
}

// Violation records a property violation. sig is the stable signature matched
// against known_findings.json; what is human text; witness is written to a replay
// file (once per signature, the first witness wins; later ones only count).
func (r *Rec) Violation(sig, what string, witness any) {
	r.mu.Lock()
	defer r.mu.Unlock()
	r.nviol++
	r.viol[sig]++
	if r.viol[sig] > 1 {
		return
	}
	name := fmt.Sprintf("%s-%016x.json", r.ID, hash64(sig))
	p := filepath.Join(r.replayDir, name)
	b, err := json.MarshalIndent(map[string]any{
		"property": r.ID, "signature": sig, "what": what, "seed": r.Seed, "tier": r.Tier, "witness": witness,
	}, "", " ")
	if err != nil {
		b = []byte(fmt.Sprintf("{\"property\":%q,\"signature\":%q,\"what\":%q,\"witness_unmarshalable\":%q}", r.ID, sig, what, fmt.Sprint(witness)))
	}
	_ = os.WriteFile(p, b, 0o644)
	r.emit(map[string]any{"t": "violation", "sig": sig, "what": what, "replay": p})
}

// Violations returns how many violations were recorded so far.
func (r *Rec) Violations() int {
	r.mu.Lock()
	defer r.mu.Unlock()
	return r.nviol
}

// Note writes a free-form note into the stream (shown in evidence "notes").
func (r *Rec) Note(k string, v any) {
	r.mu.Lock()
	r.emit(map[string]any{"t": "note", "k": k, "v": v})
	r.mu.Unlock()
}

func (r *Rec) emit(m map[string]any) {
	b, err := json.Marshal(m)
	if err != nil {
		b, _ = json.Marshal(map[string]any{"t": "note", "k": "marshal-error", "v": err.Error()})
	}
	r.out.Write(append(b, '\n'))
}

// Summary is the "done" record; children write one each and the parent merges.
type Summary struct {
	T        string              `json:"t"`
	Evals    int64               `json:"evaluations"`
	Distinct []uint64            `json:"distinct_hashes,omitempty"`
	NDist    int                 `json:"distinct_nontrivial"`
	Samples  []any               `json:"samples"`
	Counters map[string]int64    `json:"counters"`
	Sets     map[string][]string `json:"sets"`
	SetSizes map[string]int      `json:"set_sizes"`
	ViolSigs map[string]int      `json:"violation_signatures"`
	WallS    float64             `json:"wall_s"`
}

func (r *Rec) summary(withHashes bool) Summary {
	s := Summary{T: "done", Evals: r.evals, NDist: len(r.distinct), Samples: r.samples,
		Counters: r.counters, Sets: map[string][]string{}, SetSizes: map[string]int{}, ViolSigs: r.viol,
		WallS: time.Since(r.start).Seconds()}
	if withHashes {
		for h := range r.distinct {
			s.Distinct = append(s.Distinct, h)
		}
	}
	for k, m := range r.sets {
		s.SetSizes[k] = len(m)
		var l []string
		for x := range m {
			l = append(l, x)
		}
		sort.Strings(l)
		if !withHashes && len(l) > 40 {
			l = l[:40]
		}
		s.Sets[k] = l
	}
	if s.Samples == nil {
		s.Samples = []any{}
	}
	return s
}

// Done writes the final summary. A stream without a done record is a broken run.
func (r *Rec) Done() {
	r.mu.Lock()
	defer r.mu.Unlock()
	if r.closed {
		return
	}
	r.closed = true
	r.emit(map[string]any{"t": "done", "summary": r.summary(false)})
}

// ChildDone is Done for a child process: it keeps the distinct hashes and full sets
// so that the parent can merge without double counting.
func (r *Rec) ChildDone() {
	r.mu.Lock()
	defer r.mu.Unlock()
	if r.closed {
		return
	}
	r.closed = true
	r.emit(map[string]any{"t": "childdone", "summary": r.summary(true)})
}

// MergeChild folds a child's stream (file written with VERIF_OUT=<path>) into r.
// It returns false when the child left no childdone record (it died).
func (r *Rec) MergeChild(path string) bool {
	b, err := os.ReadFile(path)
	if err != nil {
		return false
	}
	ok := false
	for _, line := range strings.Split(string(b), "\n") {
		if strings.TrimSpace(line) == "" {
			continue
		}
		var m struct {
			T       string          `json:"t"`
			Sig     string          `json:"sig"`
			What    string          `json:"what"`
			Replay  string          `json:"replay"`
			K       string          `json:"k"`
			V       json.RawMessage `json:"v"`
			Summary *Summary        `json:"summary"`
		}
		if json.Unmarshal([]byte(line), &m) != nil {
			continue
		}
		r.mu.Lock()
		switch m.T {
		case "violation":
			r.nviol++
			r.viol[m.Sig]++
			if r.viol[m.Sig] == 1 {
				r.emit(map[string]any{"t": "violation", "sig": m.Sig, "what": m.What, "replay": m.Replay})
			}
		case "note":
			r.emit(map[string]any{"t": "note", "k": m.K, "v": m.V})
		case "childdone":
			ok = true
			s := m.Summary
			r.evals += s.Evals
			for _, h := range s.Distinct {
				r.distinct[h] = struct{}{}
			}
			for _, x := range s.Samples {
				if len(r.samples) < r.maxSample {
					r.samples = append(r.samples, x)
				}
			}
			for k, v := range s.Counters {
				if strings.HasPrefix(k, "max_") {
					if v > r.counters[k] {
						r.counters[k] = v
					}
				} else {
					r.counters[k] += v
				}
			}
			for k, l := range s.Sets {
				mm := r.sets[k]
				if mm == nil {
					mm = map[string]struct{}{}
					r.sets[k] = mm
				}
				for _, x := range l {
					mm[x] = struct{}{}
				}
			}
			// violations of the child were already counted through its records; the
			// extra occurrences (count>1) are folded here.
			for sig, n := range s.ViolSigs {
				if n > 1 {
					r.viol[sig] += n - 1
					r.nviol += n - 1
				}
			}
		}
		r.mu.Unlock()
	}
	return ok
}

// Guard runs f and converts a panic into (message, stack, true).
func Guard(f func()) (msg string, stack string, panicked bool) {
	defer func() {
		if e := recover(); e != nil {
			msg = fmt.Sprint(e)
			stack = string(debug.Stack())
			panicked = true
		}
	}()
	f()
	return
}

// PanicSite extracts the first zoekt frame of a stack for use in signatures.
func PanicSite(stack string) string {
	lines := strings.Split(stack, "\n")
	for i := 0; i < len(lines); i++ {
		l := lines[i]
		if strings.HasPrefix(l, "github.com/sourcegraph/zoekt") && !strings.Contains(l, "verifkit") && !strings.Contains(l, "verifcheck") && !strings.Contains(l, "zz_verif") && !strings.Contains(l, "TestVerif") {
			if j := strings.LastIndex(l, "("); j > 0 {
				l = l[:j]
			}
			return strings.TrimPrefix(l, "github.com/sourcegraph/zoekt")
		}
	}
	return "?"
}

// MsgClass collapses a panic/error message to a stable class: digits and quoted
// strings removed, truncated.
func MsgClass(msg string) string {
	var b strings.Builder
	inq := false
	lastHash := false
	for _, c := range msg {
		switch {
		case c == '"':
			inq = !inq
			b.WriteByte('"')
			lastHash = false
		case inq:
		case c >= '0' && c <= '9':
			if !lastHash {
				b.WriteByte('#')
				lastHash = true
			}
		default:
			b.WriteRune(c)
			lastHash = false
		}
		if b.Len() > 90 {
			break
		}
	}
	return b.String()
}
