package verifkit

// qgen.go: random query trees over every atom kind, with patterns cut out of the
// corpus (so they hit), mutated by one rune (near misses) or made up.

import (
	"fmt"
	"regexp/syntax"
	"strings"
	"unicode/utf8"

	"github.com/RoaringBitmap/roaring/v2"
	gregexp "github.com/grafana/regexp"

	"github.com/sourcegraph/zoekt/query"
)

const RegexpFlags = syntax.ClassNL | syntax.PerlX | syntax.UnicodeGroups

type QGen struct {
	G  *Gen
	C  *Corpus
	Ev *Evaluator
	// knobs
	MaxDepth   int
	AllowRepo  bool // type:repo nodes (only meaningful through the sharded searcher)
	NoSymbols  bool
	OnlyText   bool // only text atoms (substring / regexp / symbol)
	NoFileName bool
}

func NewQGen(g *Gen, c *Corpus, ev *Evaluator) *QGen {
	return &QGen{G: g, C: c, Ev: ev, MaxDepth: 3}
}

func (q *QGen) anyDoc() (*Repo, *Doc) {
	r := q.C.Repos[q.G.R.IntN(len(q.C.Repos))]
	return r, r.Docs[q.G.R.IntN(len(r.Docs))]
}

// cut returns a substring of s of n runes (or fewer), rune aligned.
func (q *QGen) cut(s string, n int) string {
	rs := []rune(s)
	if len(rs) == 0 {
		return ""
	}
	if n > len(rs) {
		n = len(rs)
	}
	st := q.G.R.IntN(len(rs) - n + 1)
	return string(rs[st : st+n])
}

// Pattern picks a literal pattern: from content or name of a random document, or a
// vocabulary word, possibly mutated.
func (q *QGen) Pattern(fromName bool) string {
	R := q.G.R
	n := 1 + R.IntN(8)
	if R.IntN(6) == 0 {
		n = 1 + R.IntN(2) // < 3 runes: regexp fallback
	}
	var p string
	switch R.IntN(8) {
	case 0:
		p = words[R.IntN(len(words))]
	case 1:
		p = q.G.Text(n)
	default:
		_, d := q.anyDoc()
		src := d.Text()
		if fromName {
			src = d.Name
		}
		p = q.cut(src, n)
	}
	if p != "" && R.IntN(4) == 0 { // near miss: replace one rune
		rs := []rune(p)
		rs[R.IntN(len(rs))] = q.G.pick(ContentRunes)
		p = string(rs)
	}
	if p != "" && R.IntN(8) == 0 { // case flip of one rune
		rs := []rune(p)
		i := R.IntN(len(rs))
		switch rs[i] {
		case 'a':
			rs[i] = 'A'
		case 'A':
			rs[i] = 'a'
		case 'b':
			rs[i] = 'B'
		case 'é':
			rs[i] = 'É'
		case 'É':
			rs[i] = 'é'
		}
		p = string(rs)
	}
	if !utf8.ValidString(p) {
		p = "ab"
	}
	return p
}

func quoteRe(s string) string {
	// like regexp.QuoteMeta but also keeps newlines readable
	var b strings.Builder
	for _, c := range s {
		switch {
		case strings.ContainsRune(`\.+*?()|[]{}^$`, c):
			b.WriteByte('\\')
			b.WriteRune(c)
		case c == '\n':
			b.WriteString(`\n`)
		default:
			b.WriteRune(c)
		}
	}
	return b.String()
}

// RegexSrc makes a regexp source from the query regexp grammar.
func (q *QGen) RegexSrc(fromName bool, depth int) string {
	R := q.G.R
	lit := func() string {
		p := q.Pattern(fromName)
		if p == "" {
			p = "a"
		}
		return quoteRe(p)
	}
	piece := func() string {
		switch R.IntN(22) {
		case 0:
			return "."
		case 1:
			return ".*"
		case 2:
			return "[ab]"
		case 3:
			return "[^a\\n]"
		case 4:
			return `\b`
		case 5:
			return "^"
		case 6:
			return "$"
		case 7:
			if depth > 0 {
				return "(" + q.RegexSrc(fromName, depth-1) + "|" + q.RegexSrc(fromName, depth-1) + ")"
			}
			return "(ab|ba)"
		case 8:
			return "a+"
		case 9:
			return "b?"
		case 10:
			return "(?:" + lit() + "){2}"
		case 11:
			return "(?i:" + lit() + ")"
		case 12:
			return `\s`
		case 13:
			return `\w+`
		case 14:
			return "[a-c]*"
		case 15:
			return "(" + lit() + ")"
		case 16:
			return ".+?"
		case 17:
			return `\n`
		default:
			return lit()
		}
	}
	// special shapes aimed at the anchored mechanisms
	switch R.IntN(14) {
	case 0: // word fast path
		if R.IntN(5) == 0 {
			return `\b(?i:` + lit() + `)\b`
		}
		return `\b` + lit() + `\b`
	case 1: // andLineMatchTree: two literals on a line
		return lit() + ".*" + lit()
	case 2: // single class + literal (forces the regexp engine for a near-literal)
		p := q.Pattern(fromName)
		rs := []rune(p)
		if len(rs) >= 2 {
			return "[" + quoteRe(string(rs[0])) + "]" + quoteRe(string(rs[1:]))
		}
	}
	n := 1 + R.IntN(4)
	var b strings.Builder
	for i := 0; i < n; i++ {
		b.WriteString(piece())
	}
	return b.String()
}

// Regexp makes a regexp atom (nil when the source does not parse in both engines).
func (q *QGen) Regexp(fromName bool) *query.Regexp {
	for try := 0; try < 20; try++ {
		src := q.RegexSrc(fromName, 1)
		re, err := syntax.Parse(src, RegexpFlags)
		if err != nil {
			continue
		}
		q.Ev.mu.Lock()
		q.Ev.Src[re] = src
		q.Ev.mu.Unlock()
		// make sure the reference can compile it
		if _, _, p := Guard(func() { q.Ev.compile(re, true) }); p {
			continue
		}
		return &query.Regexp{Regexp: re, CaseSensitive: q.G.R.IntN(2) == 0}
	}
	re, _ := syntax.Parse("ab", RegexpFlags)
	q.Ev.Src[re] = "ab"
	return &query.Regexp{Regexp: re, CaseSensitive: true}
}

// RegexpFromSrc makes a regexp atom from a source text (nil when it does not parse or
// the reference engine cannot compile it) and registers the source with the evaluator.
func (q *QGen) RegexpFromSrc(src string, caseSensitive bool) *query.Regexp {
	re, err := syntax.Parse(src, RegexpFlags)
	if err != nil {
		return nil
	}
	q.Ev.mu.Lock()
	q.Ev.Src[re] = src
	q.Ev.mu.Unlock()
	if _, _, p := Guard(func() { q.Ev.compile(re, caseSensitive) }); p {
		return nil
	}
	return &query.Regexp{Regexp: re, CaseSensitive: caseSensitive}
}

func (q *QGen) scope(fn, ct *bool) {
	switch q.G.R.IntN(4) {
	case 0:
		*fn = true
	case 1, 2:
		*ct = true
	}
	if q.NoFileName {
		*fn, *ct = false, true
	}
}

func (q *QGen) TextAtom() query.Q {
	R := q.G.R
	switch R.IntN(10) {
	case 0, 1, 2, 3:
		s := &query.Substring{CaseSensitive: R.IntN(2) == 0}
		q.scope(&s.FileName, &s.Content)
		s.Pattern = q.Pattern(s.FileName && !s.Content)
		return s
	case 4, 5, 6, 7:
		var fn, ct bool
		q.scope(&fn, &ct)
		re := q.Regexp(fn && !ct)
		re.FileName, re.Content = fn, ct
		return re
	default:
		if q.NoSymbols {
			return q.TextAtom()
		}
		if R.IntN(2) == 0 {
			s := &query.Substring{CaseSensitive: R.IntN(2) == 0, Content: R.IntN(2) == 0}
			s.Pattern = q.symPattern()
			return &query.Symbol{Expr: s}
		}
		re := q.Regexp(false)
		re.Content = R.IntN(2) == 0
		return &query.Symbol{Expr: re}
	}
}

func (q *QGen) symPattern() string {
	// cut from a symbol of some document when possible
	for try := 0; try < 5; try++ {
		_, d := q.anyDoc()
		if len(d.Syms()) > 0 {
			s := d.Syms()[q.G.R.IntN(len(d.Syms()))]
			seg := d.Text()[s.Start:s.End]
			n := utf8.RuneCountInString(seg)
			if n == 0 {
				continue
			}
			return q.cut(seg, 1+q.G.R.IntN(n))
		}
	}
	return q.Pattern(false)
}

func (q *QGen) someRepos() []*Repo {
	var out []*Repo
	for _, r := range q.C.Repos {
		if q.G.R.IntN(2) == 0 {
			out = append(out, r)
		}
	}
	return out
}

func (q *QGen) branchName() string {
	R := q.G.R
	switch R.IntN(6) {
	case 0:
		return "HEAD"
	case 1:
		return []string{"ma", "a", "nope", "", "release"}[R.IntN(5)]
	default:
		r, _ := q.anyDoc()
		return r.Branches[R.IntN(len(r.Branches))].Name
	}
}

func (q *QGen) FilterAtom() query.Q {
	R := q.G.R
	switch R.IntN(13) {
	case 0:
		return &query.Branch{Pattern: q.branchName(), Exact: R.IntN(2) == 0}
	case 1:
		r, _ := q.anyDoc()
		src := []string{quoteRe(q.cut(r.Name, 1+R.IntN(4))), "^" + quoteRe(r.Name) + "$", "a", "ab[0-9]", "x|repo", "^$"}[R.IntN(6)]
		re, err := gregexp.Compile(src)
		if err != nil {
			re = gregexp.MustCompile("a")
		}
		if R.IntN(2) == 0 {
			return &query.Repo{Regexp: re}
		}
		return &query.RepoRegexp{Regexp: re}
	case 2:
		var names []string
		for _, r := range q.someRepos() {
			names = append(names, r.Name)
		}
		if R.IntN(4) == 0 {
			names = append(names, "nosuchrepo")
		}
		return query.NewRepoSet(names...)
	case 3:
		var ids []uint32
		for _, r := range q.someRepos() {
			ids = append(ids, r.ID)
		}
		if R.IntN(4) == 0 {
			ids = append(ids, 9999)
		}
		return query.NewRepoIDs(ids...)
	case 4:
		br := &query.BranchesRepos{}
		n := 1 + R.IntN(2)
		for i := 0; i < n; i++ {
			bm := roaring.New()
			for _, r := range q.someRepos() {
				bm.Add(r.ID)
			}
			name := q.branchName()
			br.List = append(br.List, query.BranchRepos{Branch: name, Repos: bm})
		}
		return br
	case 5:
		l := append([]string{"Rust"}, Languages...)
		return &query.Language{Language: l[R.IntN(len(l))]}
	case 6:
		masks := []query.RawConfig{query.RcOnlyPublic, query.RcOnlyPrivate, query.RcOnlyForks, query.RcNoForks, query.RcOnlyArchived, query.RcNoArchived}
		m := masks[R.IntN(len(masks))]
		if R.IntN(3) == 0 {
			m |= masks[R.IntN(len(masks))]
		}
		return m
	case 7:
		f := []string{"k", "team", "x", "nokey"}[R.IntN(4)]
		v := []string{"a", "^ab$", "b|c", "", "^$", "abc"}[R.IntN(6)]
		return &query.Meta{Field: f, Value: gregexp.MustCompile(v)}
	case 8:
		var names []string
		for i := 0; i < 1+R.IntN(3); i++ {
			_, d := q.anyDoc()
			names = append(names, d.Name)
		}
		if R.IntN(3) == 0 {
			names = append(names, "no/such/file")
		}
		return query.NewFileNameSet(names...)
	case 9:
		return &query.Const{Value: R.IntN(2) == 0}
	default:
		return q.TextAtom()
	}
}

func (q *QGen) Atom() query.Q {
	if q.OnlyText || q.G.R.IntN(3) > 0 {
		return q.TextAtom()
	}
	return q.FilterAtom()
}

// Query makes a random tree.
func (q *QGen) Query() query.Q { return q.tree(q.MaxDepth) }

func (q *QGen) tree(depth int) query.Q {
	R := q.G.R
	if depth == 0 || R.IntN(3) == 0 {
		return q.Atom()
	}
	switch R.IntN(12) {
	case 0, 1, 2:
		return &query.And{Children: q.children(depth)}
	case 3, 4, 5:
		return &query.Or{Children: q.children(depth)}
	case 6, 7:
		return &query.Not{Child: q.tree(depth - 1)}
	case 8:
		return &query.Type{Type: query.TypeFileName, Child: q.tree(depth - 1)}
	case 9:
		return &query.Boost{Boost: []float64{0, 0.5, 2, 1e6}[R.IntN(4)], Child: q.tree(depth - 1)}
	case 10:
		if q.AllowRepo {
			return &query.Type{Type: query.TypeRepo, Child: q.tree(depth - 1)}
		}
		return q.Atom()
	default:
		return q.Atom()
	}
}

func (q *QGen) children(depth int) []query.Q {
	n := 2 + q.G.R.IntN(2)
	if q.G.R.IntN(12) == 0 {
		n = q.G.R.IntN(2) // empty / single-child
	}
	var out []query.Q
	for i := 0; i < n; i++ {
		out = append(out, q.tree(depth-1))
	}
	return out
}

// Shape is a structural fingerprint of a query (atom kinds and operators, no
// patterns) used for the distinct-case count.
func Shape(q query.Q) string {
	switch s := q.(type) {
	case *query.And:
		return "and(" + shapes(s.Children) + ")"
	case *query.Or:
		return "or(" + shapes(s.Children) + ")"
	case *query.Not:
		return "not(" + Shape(s.Child) + ")"
	case *query.Type:
		return fmt.Sprintf("type%d(%s)", s.Type, Shape(s.Child))
	case *query.Boost:
		return "boost(" + Shape(s.Child) + ")"
	case *query.Symbol:
		return "sym(" + Shape(s.Expr) + ")"
	case *query.Substring:
		return fmt.Sprintf("sub[%v%v%v%d]", b2i(s.CaseSensitive), b2i(s.FileName), b2i(s.Content), min(utf8.RuneCountInString(s.Pattern), 4))
	case *query.Regexp:
		return fmt.Sprintf("re[%v%v%v]", b2i(s.CaseSensitive), b2i(s.FileName), b2i(s.Content))
	case query.RawConfig:
		return "rc"
	}
	return strings.TrimPrefix(fmt.Sprintf("%T", q), "*query.")
}

func b2i(b bool) int {
	if b {
		return 1
	}
	return 0
}

func shapes(qs []query.Q) string {
	var l []string
	for _, c := range qs {
		l = append(l, Shape(c))
	}
	return strings.Join(l, ",")
}

// ShrinkQuery greedily reduces q while fails(q) stays true: sub-trees replace their
// parents, children are dropped. The result gives short witnesses and coarse, stable
// violation signatures.
func ShrinkQuery(q query.Q, fails func(query.Q) bool) query.Q {
	budget := 200
	for changed := true; changed && budget > 0; {
		changed = false
		for _, cand := range shrinkCands(q) {
			budget--
			if budget <= 0 {
				break
			}
			ok := false
			Guard(func() { ok = fails(cand) })
			if ok {
				q = cand
				changed = true
				break
			}
		}
	}
	return q
}

func shrinkCands(q query.Q) []query.Q {
	var out []query.Q
	switch s := q.(type) {
	case *query.And:
		out = append(out, s.Children...)
		for i := range s.Children {
			if len(s.Children) > 1 {
				c := append(append([]query.Q{}, s.Children[:i]...), s.Children[i+1:]...)
				out = append(out, &query.And{Children: c})
			}
		}
		for i, ch := range s.Children {
			for _, cc := range shrinkCands(ch) {
				c := append([]query.Q{}, s.Children...)
				c[i] = cc
				out = append(out, &query.And{Children: c})
			}
		}
	case *query.Or:
		out = append(out, s.Children...)
		for i := range s.Children {
			if len(s.Children) > 1 {
				c := append(append([]query.Q{}, s.Children[:i]...), s.Children[i+1:]...)
				out = append(out, &query.Or{Children: c})
			}
		}
		for i, ch := range s.Children {
			for _, cc := range shrinkCands(ch) {
				c := append([]query.Q{}, s.Children...)
				c[i] = cc
				out = append(out, &query.Or{Children: c})
			}
		}
	case *query.Not:
		out = append(out, s.Child)
		for _, cc := range shrinkCands(s.Child) {
			out = append(out, &query.Not{Child: cc})
		}
	case *query.Type:
		out = append(out, s.Child)
		for _, cc := range shrinkCands(s.Child) {
			out = append(out, &query.Type{Type: s.Type, Child: cc})
		}
	case *query.Boost:
		out = append(out, s.Child)
		for _, cc := range shrinkCands(s.Child) {
			out = append(out, &query.Boost{Boost: s.Boost, Child: cc})
		}
	}
	return out
}
